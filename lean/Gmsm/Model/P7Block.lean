/-
Model of sm4/padding/bloc_cryptor.go: the two helper loops `P7BlockEnc` / `P7BlockDecrypt`
(`io.ReadFull` into a fixed buffer, `cipher.BlockMode.CryptBlocks`, write) on top of the padding
reader / un-padding writer of `Model.Padding`, over the same scripted source `Src`.
Core Lean only; executable.

`cipher.BlockMode` is abstracted as a state-passing function `crypt : State → Bytes → Bytes × State`
(`CryptBlocks` returns what it wrote to `dst[:len(src)]` and the chaining value it keeps); the law
`BlockMode` says what the loops rely on.  Instances: CBC over any block function and block size
(SP 800-38A chains of `Spec.Modes`), SM4-CBC, and a toy cipher for kernel-evaluated examples.
-/
import Gmsm.Model.Padding
import Gmsm.Spec.SM4
import Gmsm.Spec.Modes
namespace Model.P7Block
open Gmsm Model.Padding

-- cipher.BlockMode ----------------------------------------------------------------------------------

/-- The contract of a `cipher.BlockMode` with block size `bs` the loops rely on: `CryptBlocks` on no
    data does nothing; `CryptBlocks` on a concatenation of two runs of whole blocks is the same as two
    successive calls (the chaining state threaded through); the output is as long as the input.
    (On inputs that are not whole blocks Go's modes panic; the loops below report that case as
    `P7Err.notFullBlocks` before calling `crypt`.) -/
structure BlockMode (bs : Nat) (State : Type) (crypt : State → Bytes → Bytes × State) : Prop where
  pos : 0 < bs
  nil : ∀ st, crypt st [] = ([], st)
  append : ∀ st a b, a.length % bs = 0 → b.length % bs = 0 →
    crypt st (a ++ b) = ((crypt st a).1 ++ (crypt (crypt st a).2 b).1, (crypt (crypt st a).2 b).2)
  length : ∀ st a, a.length % bs = 0 → (crypt st a).1.length = a.length

/-- a block mode value as the helpers receive it: `BlockSize()`, `CryptBlocks`, and its current
    chaining state -/
structure Mode (State : Type) where
  bs : Nat
  crypt : State → Bytes → Bytes × State
  init : State

/-- everything the mode produces for one input (one `CryptBlocks` call on the whole string) -/
def Mode.run {State : Type} (m : Mode State) (data : Bytes) : Bytes := (m.crypt m.init data).1

/-- the first `n` blocks of `bs` bytes (`Spec.Modes.blocks` for any block size) -/
def blocksN (bs : Nat) : Nat → Bytes → List Bytes
  | 0, _ => []
  | n+1, b => b.take bs :: blocksN bs n (b.drop bs)

theorem blocksN_all (bs n : Nat) (b : Bytes) (h : bs * n ≤ b.length) : ∀ x ∈ blocksN bs n b, x.length = bs := by
  induction n generalizing b with
  | zero => intro x hx; simp [blocksN] at hx
  | succ n ih =>
    intro x hx
    simp only [blocksN, List.mem_cons] at hx
    have h1 : bs * n + bs ≤ b.length := by rw [Nat.mul_succ] at h; exact h
    rcases hx with rfl | hx
    · rw [List.length_take]; omega
    · exact ih (b.drop bs) (by rw [List.length_drop]; omega) x hx

theorem getLastD_len (bs : Nat) (cs : List Bytes) (d : Bytes) (h : ∀ x ∈ cs, x.length = bs) (hd : d.length = bs) :
    (cs.getLastD d).length = bs := by
  induction cs generalizing d with
  | nil => exact hd
  | cons c cs ih =>
    rw [List.getLastD_cons]
    exact ih c (fun x hx => h x (by simp [hx])) (h c (by simp))

/-- `cipher.NewCBCEncrypter(E, iv).CryptBlocks`: C_i = E(P_i ⊕ C_{i-1}); the last ciphertext block
    becomes the next IV -/
def cbcEncCrypt (bs : Nat) (E : Bytes → Bytes) (iv : Bytes) (data : Bytes) : Bytes × Bytes :=
  let cs := Spec.Modes.cbcEnc E iv (blocksN bs (data.length / bs) data)
  (cs.flatten, cs.getLastD iv)

/-- an IV of the block's length (`NewCBCDecrypter` panics on any other length) -/
abbrev IV (bs : Nat) := { iv : Bytes // iv.length = bs }

/-- `cipher.NewCBCDecrypter(D, iv).CryptBlocks`: P_i = D(C_i) ⊕ C_{i-1}; the last ciphertext block
    of the input becomes the next IV -/
def cbcDecCrypt (bs : Nat) (D : Bytes → Bytes) (iv : IV bs) (data : Bytes) : Bytes × IV bs :=
  let cs := blocksN bs (data.length / bs) data
  ((Spec.Modes.cbcDec D iv.1 cs).flatten,
   ⟨cs.getLastD iv.1, getLastD_len bs cs iv.1 (blocksN_all bs _ data (Nat.mul_div_le _ _)) iv.2⟩)

def cbcEncMode (bs : Nat) (E : Bytes → Bytes) (iv : Bytes) : Mode Bytes := ⟨bs, cbcEncCrypt bs E, iv⟩
def cbcDecMode (bs : Nat) (D : Bytes → Bytes) (iv : IV bs) : Mode (IV bs) := ⟨bs, cbcDecCrypt bs D, iv⟩

/-- `cipher.NewCBCEncrypter(sm4.NewCipher(key), iv)` -/
def sm4CbcEnc (key iv : Bytes) : Mode Bytes := cbcEncMode 16 (Spec.SM4.encrypt key) iv
/-- `cipher.NewCBCDecrypter(sm4.NewCipher(key), iv)` -/
def sm4CbcDec (key : Bytes) (iv : IV 16) : Mode (IV 16) := cbcDecMode 16 (Spec.SM4.decrypt key) iv

/-- cut or zero-extend to exactly `bs` bytes -/
def fit (bs : Nat) (x : Bytes) : Bytes := x.take bs ++ List.replicate (bs - x.length) 0

/-- a toy block cipher for kernel-evaluated examples: xor with a constant block, then reverse the
    bytes; `toyD` undoes it on `bs`-byte blocks -/
def toyE (bs : Nat) (k : Bytes) (x : Bytes) : Bytes := (xorBytes (fit bs x) (fit bs k)).reverse
def toyD (bs : Nat) (k : Bytes) (y : Bytes) : Bytes := xorBytes (fit bs y).reverse (fit bs k)

-- io.ReadFull ----------------------------------------------------------------------------------------

/-- what `io.ReadFull` returns besides the count.  `fuel` is not a Go value: the model's loop counter
    ran out (proved impossible: `Props.C19Stream.readFull_spec`). -/
inductive RF | nil | eof | unexpectedEOF | fuel
deriving DecidableEq, Repr

/-- how the loop `for n < min && err == nil { nn, err = r.Read(buf[n:]); n += nn }` ended -/
inductive LoopEnd | filled | eof | fuel
deriving DecidableEq, Repr

/-- the `ReadAtLeast` loop over the padding reader: `need` = `len(buf) - n` -/
def rfLoop : Nat → Reader → Nat → Reader × Bytes × LoopEnd
  | 0, r, need => (r, [], if need = 0 then .filled else .fuel)
  | f+1, r, need =>
    if need = 0 then (r, [], .filled)
    else
      let (r', b, e) := r.read need
      if e = Model.Padding.Err.eof then (r', b, .eof)
      else
        let (r'', bs, e') := rfLoop f r' (need - b.length)
        (r'', b ++ bs, e')

/-- `io.ReadFull(p7In, buf)` with `len(buf) = L`: the bytes read, and `nil` if the buffer was filled,
    `io.EOF` if nothing was read, `io.ErrUnexpectedEOF` if some but not all.  Every `Read` with a
    non-empty buffer returns at least one byte or EOF, so `L` iterations are enough. -/
def readFull (r : Reader) (L : Nat) : Reader × Bytes × RF :=
  let (r', b, e) := rfLoop L r L
  (r', b,
    match e with
    | .fuel => .fuel
    | .filled => .nil
    | .eof => if L ≤ b.length then .nil else if 0 < b.length then .unexpectedEOF else .eof)

/-- `io.ReadFull(in, buf)` directly over the scripted source.  The `ReadAtLeast` loop
    `for n < len(buf) && err == nil` over a source that only ever returns nil or io.EOF is the loop
    `Model.Padding.fill` (the padding reader's inner loop has the same shape).  An EOF that comes
    together with the byte that fills the buffer is dropped (`n >= min → err = nil`); the next call
    then finds the source empty. -/
def readFullSrc (src : Src) (L : Nat) : Bytes × Src × RF :=
  let (b, src', eof) := fill src.script src.data L
  (b, src',
    if L ≤ b.length then .nil
    else if eof then (if 0 < b.length then .unexpectedEOF else .eof)
    else .nil)   -- not reachable: the loop only stops short of `L` bytes on EOF (`fill_spec`)

-- the helper loops -----------------------------------------------------------------------------------

inductive P7Err
  | notMultiple     -- "密文长度不是分组长度的整数倍"
  | badPad          -- "非法的PKCS7填充" (from `Final`)
  | notFullBlocks   -- panic "crypto/cipher: input not full blocks" inside CryptBlocks
  | fuel            -- not a Go outcome: the model's loop counter ran out (proved impossible)
deriving DecidableEq, Repr

-- results can be compared (for `decide` in examples)
deriving instance DecidableEq for Except

section loops
variable {State : Type} (L : Nat) (m : Mode State)

/-- the `for` loop of `P7BlockEnc`; `out` = everything written to the output so far -/
def encLoop : Nat → State → Reader → Bytes → Except P7Err Bytes
  | 0, _, _, _ => .error .fuel
  | f+1, st, r, out =>
    let (r', b, e) := readFull r L
    if e = .fuel then .error .fuel
    else if b.length % m.bs ≠ 0 then .error .notFullBlocks
    else
      let (out', st') :=
        if 0 < b.length then
          let (o, s) := m.crypt st b
          (out ++ o, s)
        else (out, st)
      if e ≠ .nil then .ok out' else encLoop f st' r' out'

/-- `P7BlockEnc(encrypter, in, out)` with a buffer of `L` bytes (Go: 1024): what has been written to
    `out` when it returns nil.  At most `len(data ‖ pad) / L + 1` refills happen. -/
def p7BlockEnc (src : Src) : Except P7Err Bytes :=
  encLoop L m (src.data.length + m.bs + 1) m.init (newReader src m.bs) []

/-- the `for` loop of `P7BlockDecrypt` followed by `p7Out.Final()` -/
def decLoop : Nat → State → Src → Writer → Except P7Err Bytes
  | 0, _, _, _ => .error .fuel
  | f+1, st, src, w =>
    let (b, src', e) := readFullSrc src L
    if b.length % m.bs ≠ 0 then .error .notMultiple
    else
      let (w', st') :=
        if 0 < b.length then
          let (o, s) := m.crypt st b
          (w.write o, s)
        else (w, st)
      if e ≠ .nil then
        match w'.final with
        | some out => .ok out
        | none => .error .badPad
      else decLoop f st' src' w'

/-- `P7BlockDecrypt(decrypter, in, out)` with a buffer of `L` bytes: what has been written to `out`
    when it returns nil -/
def p7BlockDecrypt (src : Src) : Except P7Err Bytes :=
  decLoop L m (src.data.length + 1) m.init src (newWriter m.bs)

end loops

/-- encrypt a scripted source, then decrypt the result read through a second scripted source -/
def roundTrip {S1 S2 : Type} (L : Nat) (enc : Mode S1) (dec : Mode S2) (data : Bytes)
    (s1 s2 : List (Nat × Bool)) : Except P7Err (Bytes × Bytes) :=
  match p7BlockEnc L enc ⟨data, s1⟩ with
  | .error e => .error e
  | .ok ct =>
    match p7BlockDecrypt L dec ⟨ct, s2⟩ with
    | .error e => .error e
    | .ok pt => .ok (ct, pt)

end Model.P7Block
