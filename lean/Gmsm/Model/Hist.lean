/-
Histories of calls (round 12, C01).

`run f steps` is what the PROPERTY says about a sequence of calls of a function-like API: every call answers `f` of its
own inputs, whatever was called before.  This is how the driver op `sm2hist` computes its expected line
(`Driver/SM2Hist.lean`: `run` of the per-step evaluator built from `Spec.SM2`).

`memoRun key f` is the behaviour of the same API with a ONE-ENTRY MEMO in front of `f` (the last key and the last
value; a hit returns the stored value without calling `f`) - the shape of an optimisation such as "keep the last ZA".
`Props.C01Hist` proves when it is invisible (the memo key separates the inputs) and that otherwise a two-call history
shows it.  Core Lean only.
-/
namespace Gmsm.Model.Hist

/-- history-independent evaluation: one result per step, each from its own step only -/
def run {σ ρ : Type} (f : σ → ρ) (steps : List σ) : List ρ := steps.map f

/-- one call through a one-entry memo keyed by `key` -/
def memoStep {σ ρ κ : Type} [DecidableEq κ] (key : σ → κ) (f : σ → ρ) (c : Option (κ × ρ)) (s : σ) :
    Option (κ × ρ) × ρ :=
  match c with
  | some (k, v) => if key s = k then (some (k, v), v) else (some (key s, f s), f s)
  | none => (some (key s, f s), f s)

/-- a history through the memo, starting from cache state `c` -/
def memoRun {σ ρ κ : Type} [DecidableEq κ] (key : σ → κ) (f : σ → ρ) : Option (κ × ρ) → List σ → List ρ
  | _, [] => []
  | c, s :: rest => (memoStep key f c s).2 :: memoRun key f (memoStep key f c s).1 rest

/-- the cache holds nothing, or the value of `f` for some input together with that input's key -/
def Consistent {σ ρ κ : Type} (key : σ → κ) (f : σ → ρ) (c : Option (κ × ρ)) : Prop :=
  c = none ∨ ∃ s0, c = some (key s0, f s0)

end Gmsm.Model.Hist
