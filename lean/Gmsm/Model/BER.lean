/-
Model of x509/ber.go (the BER → DER transcoder in front of ParsePKCS7) as repaired: `readObject`,
`isIndefiniteTermination`, `encodeLength`/`lengthLength`/`marshalLongLength`, `EncodeTo`, `ber2der`.
Every read is bounds-checked explicitly, as in the Go code; the recursion takes fuel (the Go recursion
is bounded by the input length, see `Props.C18.readObject_progress`, and by `maxBERDepth`, see
`Props.C18.depth_bounded`).  Core Lean only; executable.
-/
import Gmsm.Util.Bytes
namespace Model.BER
open Gmsm

inductive Obj where
  | prim (tag : Bytes) (content : Bytes)
  | cons (tag : Bytes) (items : List Obj)
deriving Repr

/-- `lengthLength` -/
def lengthLength : Nat → Nat → Nat
  | 0, _ => 1
  | fuel+1, i => if i > 255 then 1 + lengthLength fuel (i / 256) else 1

/-- `marshalLongLength`: the `n` low-order bytes of i, big endian -/
def marshalLong (n i : Nat) : Bytes := (List.range n).map fun k => BitVec.ofNat 8 (i / 256 ^ (n - 1 - k))

/-- `encodeLength` -/
def encodeLength (length : Nat) : Bytes :=
  if length ≥ 128 then
    let l := lengthLength 8 length
    BitVec.ofNat 8 (0x80 + l) :: marshalLong l length
  else [BitVec.ofNat 8 length]

mutual
  def encodeTo : Obj → Bytes
    | .prim tag content => tag ++ encodeLength content.length ++ content
    | .cons tag items => let inner := encodeItems items; tag ++ encodeLength inner.length ++ inner
  def encodeItems : List Obj → Bytes
    | [] => []
    | o :: os => encodeTo o ++ encodeItems os
end

inductive Err | truncated | tooLong | negative | leadingZero | beyondData | indefinitePrimitive | invalid | fuel | tooDeep | beyondParent
deriving Repr, DecidableEq

/-- read the (possibly multi-byte) tag starting at `offset`: returns the offset after the tag -/
def readTag : Nat → Bytes → Nat → Except Err Nat
  | 0, _, _ => .error .fuel
  | fuel+1, ber, offset =>
    -- `for offset < len(ber) && ber[offset] >= 0x80 { offset++ }`, then one more byte
    match ber[offset]? with
    | none => .error .truncated
    | some b => if b.toNat ≥ 0x80 then readTag fuel ber (offset + 1) else .ok (offset + 1)

/-- the length octets after the tag: first octet `l` (already read), further octets from `off`.
    Returns (length, offset after the length octets, indefinite) -/
def readLength (ber : Bytes) (off : Nat) (l : Byte) : Except Err (Nat × Nat × Bool) :=
  if l.toNat > 0x80 then
    let nb := l.toNat % 128
    if nb > 4 then .error .tooLong
    else if off + nb > ber.length then .error .truncated
    else if nb = 4 ∧ (ber.getD off 0).toNat > 0x7F then .error .negative
    else if (ber.getD off 0).toNat = 0 then .error .leadingZero
    else .ok (os2ip ((ber.drop off).take nb), off + nb, false)
  else if l.toNat = 0x80 then .ok (0, off, true)
  else .ok (l.toNat, off, false)

/-- `maxBERDepth`: bound on the nesting of constructed encodings that `ber2der` follows -/
def maxBERDepth : Nat := 128

mutual
  /-- `readObjectDepth(ber, offset, depth)`: the object and the offset after it -/
  def readObject : Nat → Bytes → Nat → Nat → Except Err (Obj × Nat)
    | 0, _, _, _ => .error .fuel
    | fuel+1, ber, offset, depth =>
      match ber[offset]? with
      | none => .error .truncated
      | some b =>
        let tagStart := offset
        let afterFirst := offset + 1
        let tagEndE := if b.toNat % 32 = 0x1F then readTag (ber.length + 1) ber afterFirst else .ok afterFirst
        match tagEndE with
        | .error e => .error e
        | .ok tagEnd =>
          let constructed := (b.toNat / 32) % 2 = 1
          match ber[tagEnd]? with
          | none => .error .truncated
          | some l =>
            let lenE := readLength ber (tagEnd + 1) l
            match lenE with
            | .error e => .error e
            | .ok (length, off, indefinite) =>
              let contentEnd := off + length
              if contentEnd > ber.length then .error .beyondData
              else if indefinite ∧ ¬ constructed then .error .indefinitePrimitive
              else
                let tag := (ber.drop tagStart).take (tagEnd - tagStart)
                if ¬ constructed then .ok (.prim tag ((ber.drop off).take length), contentEnd)
                else if depth ≥ maxBERDepth then .error .tooDeep
                else
                  match readItems fuel ber off contentEnd indefinite (depth + 1) with
                  | .error e => .error e
                  | .ok (items, off') =>
                    .ok (.cons tag items, if indefinite then off' + 2 else contentEnd)
  termination_by structural fuel => fuel
  /-- the loop `for (offset < contentEnd) || indefinite { … subObj, offset = readObjectDepth(..., depth) … }`
      (`depth` is the depth of the children, i.e. that of the enclosing object plus one).  In the indefinite
      case the end-of-contents test (`isIndefiniteTermination`) comes BEFORE each member, so a value with no
      members (`30 80 00 00`) is read as such. -/
  def readItems : Nat → Bytes → Nat → Nat → Bool → Nat → Except Err (List Obj × Nat)
    | 0, _, _, _, _, _ => .error .fuel
    | fuel+1, ber, offset, contentEnd, indefinite, depth =>
      if indefinite then
        -- isIndefiniteTermination
        if ber.length - offset < 2 then .error .invalid
        else if ber.getD offset 1 = 0 ∧ ber.getD (offset + 1) 1 = 0 then .ok ([], offset)
        else
          match readObject fuel ber offset depth with
          | .error e => .error e
          | .ok (o, off') =>
            match readItems fuel ber off' contentEnd indefinite depth with
            | .error e => .error e
            | .ok (os, off'') => .ok (o :: os, off'')
      else if ¬ (offset < contentEnd) then .ok ([], offset)
      else
        match readObject fuel ber offset depth with
        | .error e => .error e
        | .ok (o, off') =>
          if off' > contentEnd then .error .beyondParent   -- a member must end inside its definite-length parent
          else
            match readItems fuel ber off' contentEnd indefinite depth with
            | .error e => .error e
            | .ok (os, off'') => .ok (o :: os, off'')
  termination_by structural fuel => fuel
end

/-- `ber2der` (`readObject(ber, 0)` = `readObjectDepth(ber, 0, 0)`) -/
def ber2der (ber : Bytes) : Except Err Bytes :=
  if ber.isEmpty then .error .invalid
  else match readObject (2 * ber.length + 2) ber 0 0 with
    | .error e => .error e
    | .ok (o, _) => .ok (encodeTo o)

-- PKCS#7 block padding of the enveloped-data code (x509/pkcs7.go pad/unpad, as repaired) ---------------------

def pad (data : Bytes) (blocklen : Nat) : Option Bytes :=
  if blocklen < 1 then none
  else
    let padlen := blocklen - data.length % blocklen
    some (data ++ List.replicate padlen (BitVec.ofNat 8 padlen))

def unpad (data : Bytes) (blocklen : Nat) : Option Bytes :=
  if blocklen < 1 then none
  else if data.length % blocklen ≠ 0 ∨ data.length = 0 then none
  else
    let padlen := (data.getLastD 0).toNat
    if padlen = 0 ∨ padlen > blocklen then none
    else if (data.drop (data.length - padlen)).all (fun b => b.toNat == padlen % 256) then some (data.take (data.length - padlen))
    else none

-- PKCS#12 BMPString codec (pkcs12/bmp-string.go) over code points -------------------------------------------

/-- `bmpString`: code points of the string (valid scalar values); error for anything outside the BMP -/
def bmpString (runes : List Nat) : Option Bytes :=
  if runes.all (fun r => r < 0x10000) then
    some (runes.flatMap (fun r => [BitVec.ofNat 8 (r / 256), BitVec.ofNat 8 (r % 256)]) ++ [0, 0])
  else none

/-- UTF-16 decoding of BMP code units that are not surrogates: the identity; surrogates are outside
    what `bmpString` can produce from a valid Go string -/
def decodeBMPString (b : Bytes) : Option (List Nat) :=
  if b.length % 2 ≠ 0 then none
  else
    let b' := if b.length ≥ 2 ∧ b.getD (b.length - 1) 1 = 0 ∧ b.getD (b.length - 2) 1 = 0 then b.take (b.length - 2) else b
    some ((List.range (b'.length / 2)).map fun i => (b'.getD (2 * i) 0).toNat * 256 + (b'.getD (2 * i + 1) 0).toNat)

end Model.BER
