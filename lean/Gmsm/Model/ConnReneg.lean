/-
Model of `Conn.Write` next to a renegotiation that a concurrent `Conn.Read` performs (gmtls/conn.go; TLS client
with Config.Renegotiation set, the server sends HelloRequest).  The locks are `c.handshakeMutex` (hs) and the
write half's mutex `c.out`; `c.handshakeStatus` is the atomic flag behind `handshakeComplete()`.

    Write (after the activeCall interlock, Model.ConnInterlock):
        for {
            if err := c.Handshake(); err != nil { return 0, err }      -- hs.Lock; handshakeErr?; complete? ; hs.Unlock
            n, err := c.writeApplicationData(b)
            if err != errHandshakeInProgress { return n, err }          -- else: a renegotiation began after
        }                                                               --   Handshake returned: wait for it there
    writeApplicationData:
        c.out.Lock(); defer c.out.Unlock()
        if err := c.out.err; err != nil { return 0, err }
        if !c.handshakeComplete() { return 0, errHandshakeInProgress }  -- nothing written; c.out released on return
        ... writeRecordLocked(applicationData)

    the code as found (`fixed = false`):
        if err := c.Handshake(); err != nil { return 0, err }
        c.out.Lock(); defer c.out.Unlock()
        if !c.handshakeComplete() { return 0, alertInternalError }      -- on a healthy connection; data not sent

    Read -> handleRenegotiation (holding c.in, which only this goroutine uses):
        c.handshakeMutex.Lock(); defer Unlock()
        atomic.StoreUint32(&c.handshakeStatus, 0)
        c.clientHandshake()          -- ClientHello (c.out.Lock; write; Unlock), reads the server's flight,
                                     -- second flight (c.out.Lock; write; Unlock), reads Finished,
                                     -- atomic.StoreUint32(&c.handshakeStatus, 1)

A transition system in the style of `Model.ConnInterlock`: shared variables + one program counter per goroutine;
`localStep` performs ONE atomic action of ONE goroutine; a goroutine waiting for a mutex is blocked (`none`).
The connection is HEALTHY: every renegotiation succeeds (handshakeErr stays nil) and the transport does not fail
(c.out.err stays nil) - those exits of Write are legitimate errors and not modelled.  The reader finds
`pendingRenegs` HelloRequests (one per Read-loop iteration) and then ends.
Core Lean only; executable.
-/
namespace Model.ConnReneg

abbrev ThreadId := Nat

inductive Outcome | ok | internalError
deriving DecidableEq, Repr

inductive Kind | writer | reader
deriving DecidableEq, Repr

/-- program counter of a goroutine in `Conn.Write` -/
inductive WPc
  | hsLock            -- Handshake(): about to `c.handshakeMutex.Lock()`
  | hsCheck           -- holds hs: `handshakeErr` is nil; `if c.handshakeComplete() { return nil }` else run the handshake
  | hsUnlock          -- deferred `c.handshakeMutex.Unlock()`
  | outLock           -- about to `c.out.Lock()`
  | outCheck          -- holds out: the `handshakeComplete()` test
  | retryUnlock       -- (repaired code) writeApplicationData returns errHandshakeInProgress: deferred
                      --   `c.out.Unlock()`, then Handshake() again
  | record            -- holds out: `writeRecordLocked(recordTypeApplicationData, b)`
  | outUnlock (o : Outcome)   -- deferred `c.out.Unlock()`, the result being `o`
  | done (o : Outcome)
deriving DecidableEq, Repr

/-- program counter of the goroutine in `Conn.Read` -/
inductive RPc
  | read              -- readRecord: a HelloRequest (if the peer still sends one) or the end of the stream
  | rnLock            -- handleRenegotiation: about to `c.handshakeMutex.Lock()`
  | rnClear           -- holds hs: `atomic.StoreUint32(&c.handshakeStatus, 0)`
  | helloLock         -- clientHandshake: writeRecord(ClientHello): about to `c.out.Lock()`
  | helloSend         -- holds out: writes the ClientHello, `c.out.Unlock()`
  | finLock           -- the client's second flight (key exchange, ChangeCipherSpec, Finished): `c.out.Lock()`
  | finSend           -- holds out: writes it, `c.out.Unlock()`
  | rnFinish          -- server Finished read: `atomic.StoreUint32(&c.handshakeStatus, 1)`; `c.handshakes++`
  | rnUnlock          -- deferred `c.handshakeMutex.Unlock()`
  | done
deriving DecidableEq, Repr

inductive Thread
  | writer (pc : WPc)
  | reader (pc : RPc)
deriving DecidableEq, Repr

def Thread.kind : Thread → Kind
  | .writer _ => .writer
  | .reader _ => .reader

def Thread.start : Kind → Thread
  | .writer => .writer .hsLock
  | .reader => .reader .read

def Thread.isDone : Thread → Bool
  | .writer (.done _) => true
  | .reader .done => true
  | _ => false

/-- what a finished Write returned -/
def Thread.outcome : Thread → Option Outcome
  | .writer (.done o) => some o
  | _ => none

structure Shared where
  /-- `c.handshakeMutex` is held -/
  hsHeld : Bool
  /-- `c.out` is held -/
  outHeld : Bool
  /-- `c.handshakeStatus == 1` -/
  complete : Bool
  /-- HelloRequests the peer will still send -/
  pendingRenegs : Nat
  /-- the ClientHello of the running renegotiation is on the wire and the handshake has not finished: from here
      to the end of the handshake a peer refuses application data (as this library does: unexpected_message) -/
  helloSent : Bool
  /-- application-data records written -/
  appRecords : Nat
  /-- application-data records written while `helloSent` -/
  appMidHandshake : Nat
  /-- renegotiations completed -/
  renegsDone : Nat
  /-- handshakes run by a Write itself (`Handshake()` found the connection without a completed handshake) -/
  selfHandshakes : Nat
deriving DecidableEq, Repr

structure State extends Shared where
  threads : List Thread
deriving DecidableEq, Repr

/-- one atomic action of a goroutine in state `th`; `none` = blocked on a mutex, or finished.
    `fixed = true`: the repaired `Write`; `false`: the code as found -/
def localStep (fixed : Bool) (sh : Shared) : Thread → Option (Shared × Thread)
  | .writer .hsLock => if sh.hsHeld then none else some ({ sh with hsHeld := true }, .writer .hsCheck)
  | .writer .hsCheck =>
      if sh.complete then some (sh, .writer .hsUnlock)
      else some ({ sh with complete := true, selfHandshakes := sh.selfHandshakes + 1 }, .writer .hsUnlock)
  | .writer .hsUnlock => some ({ sh with hsHeld := false }, .writer .outLock)
  | .writer .outLock => if sh.outHeld then none else some ({ sh with outHeld := true }, .writer .outCheck)
  | .writer .outCheck =>
      if sh.complete then some (sh, .writer .record)
      else if fixed then some (sh, .writer .retryUnlock)
      else some (sh, .writer (.outUnlock .internalError))
  | .writer .retryUnlock => some ({ sh with outHeld := false }, .writer .hsLock)
  | .writer .record =>
      some ({ sh with appRecords := sh.appRecords + 1,
                      appMidHandshake := sh.appMidHandshake + (if sh.helloSent then 1 else 0) },
            .writer (.outUnlock .ok))
  | .writer (.outUnlock o) => some ({ sh with outHeld := false }, .writer (.done o))
  | .writer (.done _) => none
  | .reader .read =>
      if sh.pendingRenegs = 0 then some (sh, .reader .done)
      else some ({ sh with pendingRenegs := sh.pendingRenegs - 1 }, .reader .rnLock)
  | .reader .rnLock => if sh.hsHeld then none else some ({ sh with hsHeld := true }, .reader .rnClear)
  | .reader .rnClear => some ({ sh with complete := false }, .reader .helloLock)
  | .reader .helloLock => if sh.outHeld then none else some ({ sh with outHeld := true }, .reader .helloSend)
  | .reader .helloSend => some ({ sh with outHeld := false, helloSent := true }, .reader .finLock)
  | .reader .finLock => if sh.outHeld then none else some ({ sh with outHeld := true }, .reader .finSend)
  | .reader .finSend => some ({ sh with outHeld := false }, .reader .rnFinish)
  | .reader .rnFinish =>
      some ({ sh with complete := true, helloSent := false, renegsDone := sh.renegsDone + 1 }, .reader .rnUnlock)
  | .reader .rnUnlock => some ({ sh with hsHeld := false }, .reader .read)
  | .reader .done => none

/-- one atomic action of goroutine `t`; `none` when `t` is blocked, finished, or no goroutine -/
def step (fixed : Bool) (s : State) (t : ThreadId) : Option State :=
  match s.threads[t]? with
  | none => none
  | some th =>
    match localStep fixed s.toShared th with
    | none => none
    | some (sh, th') => some { toShared := sh, threads := s.threads.set t th' }

/-- the scheduler picks `t`: its action happens, or nothing happens when it cannot move -/
def next (fixed : Bool) (s : State) (t : ThreadId) : State := (step fixed s t).getD s

/-- run a schedule -/
def run (fixed : Bool) (s : State) (sched : List ThreadId) : State := sched.foldl (next fixed) s

def initShared (renegs : Nat) : Shared :=
  { hsHeld := false, outHeld := false, complete := true, pendingRenegs := renegs, helloSent := false,
    appRecords := 0, appMidHandshake := 0, renegsDone := 0, selfHandshakes := 0 }

/-- an established connection, the peer about to ask for `renegs` renegotiations, one goroutine per entry of
    `kinds`, each about to make its call -/
def initOf (kinds : List Kind) (renegs : Nat) : State :=
  { toShared := initShared renegs, threads := kinds.map Thread.start }

/-- `nW` goroutines in Write (ids 0..nW-1) and one in Read (id nW) -/
def init (nW renegs : Nat) : State := initOf (List.replicate nW .writer ++ [.reader]) renegs

def State.outcomes (s : State) : List (Option Outcome) := s.threads.map Thread.outcome
def State.allDone (s : State) : Bool := s.threads.all Thread.isDone

end Model.ConnReneg
