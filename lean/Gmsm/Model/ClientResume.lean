/-
The client's side of session resumption in gmtls, as far as server authentication is concerned:

  `(*Conn).clientHandshake` (handshake_client.go): cache lookup, version / suite filter and - the repair -
      `sessionServerCertsAcceptable`: the offer gate that re-checks the verification policy of THIS connection
  `processServerHello` (handshake_client.go and gm_handshake_client_double.go): an abbreviated handshake takes
      `peerCertificates` and `verifiedChains` from the cached `ClientSessionState` without looking at them
  `doFullHandshake`: the certificate verification of a full handshake (`Model.HandshakeAuth.chainOK`, i.e.
      `Model.X509.verify`, once per leaf: TLS one leaf, GMSSL signing and encryption certificate), and what the
      session stored afterwards holds (`verifiedChains` is empty under InsecureSkipVerify)

run over a history of connections that share one cache entry (the cache is application-supplied: nothing ties
an entry to the ServerName, the clock or the InsecureSkipVerify bit of the Config that stored it).

Before the repair `offerGate` was the version / suite filter alone (`offerGateOld`).
The server's side of resumption is Model.Resume; the rest of the full handshake is Model.HandshakeAuth.
Core Lean only; executable.
-/
import Gmsm.Model.HandshakeAuth
namespace Model.ClientResume
open Model Model.HandshakeAuth

/-- `ClientSessionState` as the offer gate and the abbreviated handshake read it -/
structure CSess where
  vers : Nat
  suite : Nat
  certs : List X509.Cert          -- `serverCertificates`
  chains : List (List Nat)        -- `verifiedChains`
  sid : Nat                       -- stands for the master secret: number of the connection that created it
deriving Repr

/-- the verification policy of one connection: `Client` (InsecureSkipVerify, RootCAs, `opts` = Config.Time() and
    Config.ServerName, offered suites) plus the configured version range -/
structure Conf where
  client : Client
  minVers : Nat
  maxVers : Nat

/-- the end-entity certificates of a cached session: the first, and in a GMSSL session the second too -/
def leaves (s : CSess) : List X509.Cert :=
  if s.vers == versionGMSSL && decide (2 ≤ s.certs.length) then s.certs.take 2 else s.certs.take 1

/-- one leaf of a cached session under the present policy: inside its validity period at `Config.time()` and
    `VerifyHostname(Config.ServerName)` succeeds -/
def leafAcceptable (o : X509.Opts) (l : X509.Cert) : Bool :=
  !(o.now < l.nb || o.now > l.na) && X509.verifyHostname l o

/-- `sessionServerCertsAcceptable` (the repair) -/
def certsAcceptable (c : Client) (s : CSess) : Bool :=
  c.insecureSkipVerify ||
    (!s.chains.isEmpty && !s.certs.isEmpty && (leaves s).all (leafAcceptable c.opts))

/-- the filter `clientHandshake` always had: suite still offered, version inside the configured range -/
def offerGateOld (k : Conf) (s : CSess) : Bool :=
  k.client.suites.contains s.suite && decide (k.minVers ≤ s.vers) && decide (s.vers ≤ k.maxVers)

/-- the session is offered (ticket in the ClientHello) -/
def offerGate (k : Conf) (s : CSess) : Bool := offerGateOld k s && certsAcceptable k.client s

def offered (k : Conf) (cache : Option CSess) : Option CSess := cache.filter (offerGate k)

/-- what the server answers to a ClientHello that carries a ticket -/
structure Reply where
  resumes : Bool       -- it echoes the session id (`serverResumedSession`)
  vers : Nat
  suite : Nat
  finOK : Bool         -- its Finished verifies under the cached master secret

inductive Outcome
  | resumed (s : CSess)     -- abbreviated handshake completed; the connection reports `s.certs`, `s.chains`
  | full                    -- a full handshake follows (Model.HandshakeAuth decides it)
  | error
deriving Repr

/-- `clientHandshake` + `processServerHello` + `readFinished` up to the point where the handshake is either
    completed as a resumption or continues as a full handshake -/
def attempt (k : Conf) (cache : Option CSess) (r : Reply) : Outcome :=
  match offered k cache with
  | none => .full
  | some s =>
    if !r.resumes then .full
    else if s.vers != r.vers || s.suite != r.suite || !r.finOK then .error
    else .resumed s

-- full handshakes and histories ---------------------------------------------------------------------------

/-- the server of a history: its Certificate message (leaves first), the version and suite it selects -/
structure Srv where
  certs : List X509.Cert
  vers : Nat
  suite : Nat

def srvLeaves (s : Srv) : List X509.Cert := if s.vers == versionGMSSL then s.certs.take 2 else s.certs.take 1
def srvInters (s : Srv) : List X509.Cert := if s.vers == versionGMSSL then s.certs.drop 2 else s.certs.drop 1

/-- the verification loop of `doFullHandshake`: every leaf in turn, `c.verifiedChains` = the chains of the last -/
def verifyLeaves (c : Client) (inters : List X509.Cert) : List X509.Cert → List (List Nat) → Except X509.Res (List (List Nat))
  | [], acc => .ok acc
  | l :: ls, _ =>
    match X509.verify c.roots inters l c.opts with
    | .ok chains => verifyLeaves c inters ls chains
    | e => .error e

/-- certificate verdict of a full handshake with an honest server, and the session stored after it -/
def fullHandshake (k : Conf) (srv : Srv) (n : Nat) : Except X509.Res CSess :=
  if k.client.insecureSkipVerify then .ok ⟨srv.vers, srv.suite, srv.certs, [], n⟩
  else match verifyLeaves k.client (srvInters srv) (srvLeaves srv) [] with
    | .ok chains => .ok ⟨srv.vers, srv.suite, srv.certs, chains, n⟩
    | .error e => .error e

inductive Result
  | full (n : Nat)
  | resumed (s : CSess)
  | failed (r : X509.Res)
deriving Repr

/-- one connection to an honest server that resumes every ticket it is offered and issues a ticket after every
    full handshake: the new cache entry and the result -/
def conn (srv : Srv) (cache : Option CSess) (n : Nat) (k : Conf) : Option CSess × Result :=
  match attempt k cache ⟨true, srv.vers, srv.suite, true⟩ with
  | .resumed s => (cache, .resumed s)
  | .error => (cache, .failed .noChain)      -- not reachable with this server (`conn_never_error`)
  | .full =>
    match fullHandshake k srv n with
    | .ok s => (some s, .full n)
    | .error e => (cache, .failed e)

def run (srv : Srv) : Option CSess → Nat → List Conf → List Result
  | _, _, [] => []
  | cache, n, k :: ks =>
    let (cache', r) := conn srv cache (n + 1) k
    r :: run srv cache' (n + 1) ks

end Model.ClientResume
