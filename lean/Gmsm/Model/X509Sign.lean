/-
Decision logic of certificate / CSR / CRL signing and verification in x509/x509.go + utils.go, over the
tables regenerated from the source (`Gen.X509`): which algorithm `signingParamsForPublicKey` resolves
to, what the signer is handed (raw TBS or a digest), and what `checkSignature` verifies.
Core Lean only; executable.
-/
import Gmsm.Gen.X509Tables
namespace Model.X509Sign
open Gen.X509

inductive Family | rsa | ecdsa256 | ecdsa384 | ecdsa521 | sm2
deriving DecidableEq, Repr

def families : List Family := [.rsa, .ecdsa256, .ecdsa384, .ecdsa521, .sm2]

/-- key in `Gen.X509.defaults` -/
def Family.key : Family → String
  | .rsa => "rsa.PublicKey"
  | .ecdsa256 => "ecdsa.PublicKey:elliptic.P224|elliptic.P256"
  | .ecdsa384 => "ecdsa.PublicKey:elliptic.P384"
  | .ecdsa521 => "ecdsa.PublicKey:elliptic.P521"
  | .sm2 => "sm2.PublicKey:sm2.P256Sm2"

def defaultRow (f : Family) : Option (String × String × String × String) := defaults.find? (·.1 == f.key)

/-- `signingParamsForPublicKey(pub, requested)`: (oid variable, hash), or none = error. "" = unset. -/
def resolve (f : Family) (req : String) : Option (String × String) :=
  match defaultRow f with
  | none => none
  | some (_, pubType, hash, oid) =>
    if req == "" then some (oid, hash)
    else match details.find? (·.1 == req) with
      | none => none
      | some (_, oid', keyAlgo, hash') =>
        if keyAlgo != pubType then none
        else if hash' == "Hash(0)" then none
        else if creatorRefuses.contains req then none      -- `if requestedSigAlgo == MD5WithRSA { err … }` (regenerated list)
        else some (oid', hash')

/-- what the creator hands to the signer / what the signature scheme finally covers -/
inductive Covered
  | sm2OverRaw               -- SM2 signs SM3(Z_A ‖ TBS): the signer is given the raw TBS
  | digest (h : String)      -- the digest of TBS under hash h
  | rejected
deriving DecidableEq, Repr

/-- the creators (after the repair): "digest-unless-signer-key-is:sm2.PublicKey" -/
def signed (f : Family) (hash : String) : Covered :=
  if signInput_CreateCertificate == "digest-unless-signer-key-is:sm2.PublicKey" then
    (if f == .sm2 then .sm2OverRaw else .digest hash)
  else .rejected

/-- the algorithm a parser recovers from the OID written into the object: first row with that OID
    (RSA-PSS is resolved by its parameters, modelled as "the requested one") -/
def parsedAlgo (oid req : String) : String :=
  if oid == "oidSignatureRSAPSS" then req
  else (details.find? (·.2.1 == oid)).map (·.1) |>.getD "Unknown"

/-- `checkSignature(algo, signed, signature, publicKey)` for a verifier key of family `f` -/
def verified (f : Family) (algo : String) : Covered :=
  match verifyHash.find? (·.1 == algo) with
  | none => .rejected
  | some (_, h) =>
    if h == "reject" then .rejected
    else if f == .sm2 then .sm2OverRaw else .digest h

/-- the three creators with a `SignatureAlgorithm` in their template (`Certificate.CreateCRL` has none: it always
    signs with the default of the key) -/
inductive Creator | cert | csr | crl
deriving DecidableEq, Repr

def creators : List Creator := [.cert, .csr, .crl]

/-- regenerated: what the creator hands to `signer.Sign` as options: ("hash-only", "") or
    ("pss-iff-requested-isRSAPSS", the SaltLength it sets) -/
def Creator.signerOpts : Creator → String × String
  | .cert => signerOpts_CreateCertificate
  | .csr => signerOpts_CreateCertificateRequest
  | .crl => signerOpts_CreateRevocationList

/-- the signature scheme proper (the hash is `Covered`'s business) -/
inductive Scheme
  | pkcs1v15               -- RSASSA-PKCS1-v1_5
  | pss (salt : String)    -- RSASSA-PSS with this salt-length rule
  | ecdsa
  | sm2
deriving DecidableEq, Repr

/-- `SignatureAlgorithm.isRSAPSS()` -/
def isRSAPSS (algo : String) : Bool := rsaPSSAlgos.contains algo

/-- the scheme the signature is MADE with: decided by the signer's key, and for an RSA key
    (`rsa.PrivateKey.Sign`) by the options: `*rsa.PSSOptions` gives PSS, a bare hash gives PKCS#1 v1.5.
    The creator passes `*rsa.PSSOptions` only in its "if template.SignatureAlgorithm.isRSAPSS()" branch. -/
def signSchemeWith (opts : String × String) (f : Family) (req : String) : Scheme :=
  match f with
  | .sm2 => .sm2
  | .ecdsa256 | .ecdsa384 | .ecdsa521 => .ecdsa
  | .rsa => if opts.1 == "pss-iff-requested-isRSAPSS" && isRSAPSS req then .pss opts.2 else .pkcs1v15

def signScheme (c : Creator) (f : Family) (req : String) : Scheme := signSchemeWith c.signerOpts f req

/-- regenerated: the guard that decides between raw TBS and digest in this creator -/
def Creator.signInput : Creator → String
  | .cert => signInput_CreateCertificate
  | .csr => signInput_CreateCertificateRequest
  | .crl => signInput_CreateRevocationList

/-- `signed`, for each creator by its own guard -/
def signedBy (c : Creator) (f : Family) (hash : String) : Covered :=
  if c.signInput == "digest-unless-signer-key-is:sm2.PublicKey" then
    (if f == .sm2 then .sm2OverRaw else .digest hash)
  else .rejected

/-- the scheme `checkSignature` VERIFIES with, for a verifier key of family `f` and the algorithm recovered from
    the object -/
def verifyScheme (f : Family) (algo : String) : Scheme :=
  match f with
  | .sm2 => .sm2
  | .ecdsa256 | .ecdsa384 | .ecdsa521 => .ecdsa
  | .rsa => if isRSAPSS algo then .pss verifyPSSSalt else .pkcs1v15

/-- requested algorithms that belong to a key family -/
def inFamily : Family → List String
  | .rsa => ["SHA1WithRSA", "SHA256WithRSA", "SHA384WithRSA", "SHA512WithRSA", "SHA256WithRSAPSS", "SHA384WithRSAPSS", "SHA512WithRSAPSS"]
  | .ecdsa256 | .ecdsa384 | .ecdsa521 => ["ECDSAWithSHA1", "ECDSAWithSHA256", "ECDSAWithSHA384", "ECDSAWithSHA512"]
  | .sm2 => ["SM2WithSM3", "SM2WithSHA1", "SM2WithSHA256"]

/-- the scheme the emitted AlgorithmIdentifier NAMES (what any other implementation will verify with): by the
    key algorithm of its row in `signatureAlgorithmDetails`; RSASSA-PSS by `isRSAPSS`, SM2 by the SM2 rows -/
def namedScheme (algo : String) : Option Scheme :=
  match details.find? (·.1 == algo) with
  | none => none
  | some (_, _, keyAlgo, _) =>
    if keyAlgo == "RSA" then some (if isRSAPSS algo then .pss verifyPSSSalt else .pkcs1v15)
    else if keyAlgo == "ECDSA" then some (if (inFamily .sm2).contains algo then .sm2 else .ecdsa)
    else none

/-- the creator accepts the template (as far as the signature algorithm is concerned) -/
def accepts (f : Family) (req : String) : Bool := (resolve f req).isSome

end Model.X509Sign
