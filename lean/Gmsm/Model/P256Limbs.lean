/-
Model of the 9-limb Montgomery field arithmetic of sm2/p256.go ("layer L", below `Model.SM2Curve`):
`sm2P256FieldElement = [9]uint32` with limbs of alternately 29 and 28 bits, elements kept as x·R mod p
with R = 2^257, `sm2P256LargeFieldElement = [17]uint64`.

Exact transcriptions with `BitVec 32` / `BitVec 64` (Go wrap-around arithmetic, shifts, masks) of
`sm2P256Add`, `sm2P256Sub`, `sm2P256Mul`, `sm2P256Square`, `sm2P256ReduceCarry`, `sm2P256ReduceDegree`,
`nonZeroToAllOnes`, `sm2P256Scalar`, `sm2P256FromBig`, `sm2P256ToBig`, `sm2P256Dup`,
`sm2P256CopyConditional` and the constants.  Loops are unrolled; the loop bodies are separate functions
whose parameters carry the names of the Go variables they stand for, with the Go lines in comments.
Core Lean only; executable.
-/
namespace Model.P256Limbs

abbrev U32 := BitVec 32
abbrev U64 := BitVec 64

/-- `sm2P256FieldElement` -/
abbrev Limbs := Vector U32 9
/-- `sm2P256LargeFieldElement` -/
abbrev Large := Vector U64 17

def P : Nat := 0xFFFFFFFEFFFFFFFFFFFFFFFFFFFFFFFFFFFFFFFF00000000FFFFFFFFFFFFFFFF
/-- `sm2P256.RInverse` -/
def RInverse : Nat := 0x7ffffffd80000002fffffffe000000017ffffffe800000037ffffffc80000002
/-- the Montgomery radix R = 2^257 -/
def R : Nat := 2 ^ 257

def bottom28Bits : U32 := 0xFFFFFFF
def bottom29Bits : U32 := 0x1FFFFFFF

/-- value of a field element: Σ limb_i · 2^offset_i, offsets 0,29,57,86,114,143,171,200,228 -/
def value (a : Limbs) : Nat :=
  a[0].toNat + a[1].toNat * 2 ^ 29 + a[2].toNat * 2 ^ 57 + a[3].toNat * 2 ^ 86 + a[4].toNat * 2 ^ 114
  + a[5].toNat * 2 ^ 143 + a[6].toNat * 2 ^ 171 + a[7].toNat * 2 ^ 200 + a[8].toNat * 2 ^ 228

/-- value of a large element: the same offsets continued (257, 285, 314, 342, 371, 399, 428, 456) -/
def valueLarge (b : Large) : Nat :=
  b[0].toNat + b[1].toNat * 2 ^ 29 + b[2].toNat * 2 ^ 57 + b[3].toNat * 2 ^ 86 + b[4].toNat * 2 ^ 114
  + b[5].toNat * 2 ^ 143 + b[6].toNat * 2 ^ 171 + b[7].toNat * 2 ^ 200 + b[8].toNat * 2 ^ 228
  + b[9].toNat * 2 ^ 257 + b[10].toNat * 2 ^ 285 + b[11].toNat * 2 ^ 314 + b[12].toNat * 2 ^ 342
  + b[13].toNat * 2 ^ 371 + b[14].toNat * 2 ^ 399 + b[15].toNat * 2 ^ 428 + b[16].toNat * 2 ^ 456

/-- the field element (mod p) a limb vector stands for: value · R⁻¹ -/
def fieldRepr (a : Limbs) : Nat := value a * RInverse % P

-- constants ------------------------------------------------------------------------------------------

/-- `sm2P256Zero31` ("0 mod p") -/
def zero31 : Limbs :=
  #v[0x7FFFFFF8, 0x3FFFFFFC, 0x800003FC, 0x3FFFDFFC, 0x7FFFFFFC, 0x3FFFFFFC, 0x7FFFFFFC, 0x37FFFFFC, 0x7FFFFFFC]

/-- `sm2P256Carry` -/
def carryTable : Vector U32 72 := #v[
  0x0, 0x0, 0x0, 0x0, 0x0, 0x0, 0x0, 0x0, 0x0,
  0x2, 0x0, 0x1FFFFF00, 0x7FF, 0x0, 0x0, 0x0, 0x2000000, 0x0,
  0x4, 0x0, 0x1FFFFE00, 0xFFF, 0x0, 0x0, 0x0, 0x4000000, 0x0,
  0x6, 0x0, 0x1FFFFD00, 0x17FF, 0x0, 0x0, 0x0, 0x6000000, 0x0,
  0x8, 0x0, 0x1FFFFC00, 0x1FFF, 0x0, 0x0, 0x0, 0x8000000, 0x0,
  0xA, 0x0, 0x1FFFFB00, 0x27FF, 0x0, 0x0, 0x0, 0xA000000, 0x0,
  0xC, 0x0, 0x1FFFFA00, 0x2FFF, 0x0, 0x0, 0x0, 0xC000000, 0x0,
  0xE, 0x0, 0x1FFFF900, 0x37FF, 0x0, 0x0, 0x0, 0xE000000, 0x0]

/-- `sm2P256Factor` -/
def factor : Vector Limbs 9 := #v[
  #v[0x0, 0x0, 0x0, 0x0, 0x0, 0x0, 0x0, 0x0, 0x0],
  #v[0x2, 0x0, 0x1FFFFF00, 0x7FF, 0x0, 0x0, 0x0, 0x2000000, 0x0],
  #v[0x4, 0x0, 0x1FFFFE00, 0xFFF, 0x0, 0x0, 0x0, 0x4000000, 0x0],
  #v[0x6, 0x0, 0x1FFFFD00, 0x17FF, 0x0, 0x0, 0x0, 0x6000000, 0x0],
  #v[0x8, 0x0, 0x1FFFFC00, 0x1FFF, 0x0, 0x0, 0x0, 0x8000000, 0x0],
  #v[0xA, 0x0, 0x1FFFFB00, 0x27FF, 0x0, 0x0, 0x0, 0xA000000, 0x0],
  #v[0xC, 0x0, 0x1FFFFA00, 0x2FFF, 0x0, 0x0, 0x0, 0xC000000, 0x0],
  #v[0xE, 0x0, 0x1FFFF900, 0x37FF, 0x0, 0x0, 0x0, 0xE000000, 0x0],
  #v[0x10, 0x0, 0x1FFFF800, 0x3FFF, 0x0, 0x0, 0x0, 0x0, 0x01]]

/-- `nonZeroToAllOnes`: `((x - 1) >> 31) - 1` -/
def nonZeroToAllOnes (x : U32) : U32 := ((x - 1) >>> 31) - 1

-- sm2P256ReduceCarry ---------------------------------------------------------------------------------

/-- index `carry*9+k` into `sm2P256Carry`, computed in uint32 as Go does -/
def carryIdx (carry : U32) (k : U32) : Nat := (carry * 9 + k).toNat

/-- Go panics (index out of range) when one of the four table indices is ≥ 72; never for carry < 8 -/
def reduceCarryPanics (carry : U32) : Bool :=
  72 ≤ carryIdx carry 0 || 72 ≤ carryIdx carry 2 || 72 ≤ carryIdx carry 3 || 72 ≤ carryIdx carry 7

/-- `sm2P256ReduceCarry(a, carry)` (documented: carry < 2^3) -/
def reduceCarry (a : Limbs) (carry : U32) : Limbs :=
  let a := a.set 0 (a[0] + carryTable.toArray.getD (carryIdx carry 0) 0)   -- a[0] += sm2P256Carry[carry*9+0]
  let a := a.set 2 (a[2] + carryTable.toArray.getD (carryIdx carry 2) 0)   -- a[2] += sm2P256Carry[carry*9+2]
  let a := a.set 3 (a[3] + carryTable.toArray.getD (carryIdx carry 3) 0)   -- a[3] += sm2P256Carry[carry*9+3]
  let a := a.set 7 (a[7] + carryTable.toArray.getD (carryIdx carry 7) 0)   -- a[7] += sm2P256Carry[carry*9+7]
  a

-- sm2P256Add -----------------------------------------------------------------------------------------

/-- even loop half: `c[i] = a[i] + b[i]; c[i] += carry; carry = c[i] >> 29; c[i] &= bottom29Bits`;
    returns (c[i], carry) -/
def addLimb29 (ai bi carry : U32) : U32 × U32 :=
  let ci := ai + bi
  let ci := ci + carry
  (ci &&& bottom29Bits, ci >>> 29)

/-- odd loop half: the same with 28 bits -/
def addLimb28 (ai bi carry : U32) : U32 × U32 :=
  let ci := ai + bi
  let ci := ci + carry
  (ci &&& bottom28Bits, ci >>> 28)

/-- the carry chain of `sm2P256Add` (the loop, i = 0..8), returns (c, carry) -/
def addChain (a b : Limbs) : Limbs × U32 :=
  let r0 := addLimb29 a[0] b[0] 0
  let r1 := addLimb28 a[1] b[1] r0.2
  let r2 := addLimb29 a[2] b[2] r1.2
  let r3 := addLimb28 a[3] b[3] r2.2
  let r4 := addLimb29 a[4] b[4] r3.2
  let r5 := addLimb28 a[5] b[5] r4.2
  let r6 := addLimb29 a[6] b[6] r5.2
  let r7 := addLimb28 a[7] b[7] r6.2
  let r8 := addLimb29 a[8] b[8] r7.2
  (#v[r0.1, r1.1, r2.1, r3.1, r4.1, r5.1, r6.1, r7.1, r8.1], r8.2)

/-- `sm2P256Add(c, a, b)` -/
def add (a b : Limbs) : Limbs :=
  let r := addChain a b
  reduceCarry r.1 r.2

-- sm2P256Sub -----------------------------------------------------------------------------------------

/-- `c[i] = a[i] - b[i]; c[i] += sm2P256Zero31[i]; c[i] += carry; carry = c[i] >> 29; c[i] &= bottom29Bits` -/
def subLimb29 (ai bi zi carry : U32) : U32 × U32 :=
  let ci := ai - bi
  let ci := ci + zi
  let ci := ci + carry
  (ci &&& bottom29Bits, ci >>> 29)

def subLimb28 (ai bi zi carry : U32) : U32 × U32 :=
  let ci := ai - bi
  let ci := ci + zi
  let ci := ci + carry
  (ci &&& bottom28Bits, ci >>> 28)

def subChain (a b : Limbs) : Limbs × U32 :=
  let r0 := subLimb29 a[0] b[0] zero31[0] 0
  let r1 := subLimb28 a[1] b[1] zero31[1] r0.2
  let r2 := subLimb29 a[2] b[2] zero31[2] r1.2
  let r3 := subLimb28 a[3] b[3] zero31[3] r2.2
  let r4 := subLimb29 a[4] b[4] zero31[4] r3.2
  let r5 := subLimb28 a[5] b[5] zero31[5] r4.2
  let r6 := subLimb29 a[6] b[6] zero31[6] r5.2
  let r7 := subLimb28 a[7] b[7] zero31[7] r6.2
  let r8 := subLimb29 a[8] b[8] zero31[8] r7.2
  (#v[r0.1, r1.1, r2.1, r3.1, r4.1, r5.1, r6.1, r7.1, r8.1], r8.2)

/-- `sm2P256Sub(c, a, b)` -/
def sub (a b : Limbs) : Limbs :=
  let r := subChain a b
  reduceCarry r.1 r.2

-- sm2P256Mul / sm2P256Square: the schoolbook part ----------------------------------------------------

/-- `uint64(x)` -/
def u64 (x : U32) : U64 := x.setWidth 64

/-- the 17 words `tmp[0..16]` of `sm2P256Mul` -/
def mulLarge (a b : Limbs) : Large :=
  let a0 := u64 a[0]; let a1 := u64 a[1]; let a2 := u64 a[2]; let a3 := u64 a[3]; let a4 := u64 a[4]
  let a5 := u64 a[5]; let a6 := u64 a[6]; let a7 := u64 a[7]; let a8 := u64 a[8]
  let b0 := u64 b[0]; let b1 := u64 b[1]; let b2 := u64 b[2]; let b3 := u64 b[3]; let b4 := u64 b[4]
  let b5 := u64 b[5]; let b6 := u64 b[6]; let b7 := u64 b[7]; let b8 := u64 b[8]
  #v[ a0 * b0,
      a0 * (b1 <<< 0) + a1 * (b0 <<< 0),
      a0 * (b2 <<< 0) + a1 * (b1 <<< 1) + a2 * (b0 <<< 0),
      a0 * (b3 <<< 0) + a1 * (b2 <<< 0) + a2 * (b1 <<< 0) + a3 * (b0 <<< 0),
      a0 * (b4 <<< 0) + a1 * (b3 <<< 1) + a2 * (b2 <<< 0) + a3 * (b1 <<< 1) + a4 * (b0 <<< 0),
      a0 * (b5 <<< 0) + a1 * (b4 <<< 0) + a2 * (b3 <<< 0) + a3 * (b2 <<< 0) + a4 * (b1 <<< 0) + a5 * (b0 <<< 0),
      a0 * (b6 <<< 0) + a1 * (b5 <<< 1) + a2 * (b4 <<< 0) + a3 * (b3 <<< 1) + a4 * (b2 <<< 0) + a5 * (b1 <<< 1)
        + a6 * (b0 <<< 0),
      a0 * (b7 <<< 0) + a1 * (b6 <<< 0) + a2 * (b5 <<< 0) + a3 * (b4 <<< 0) + a4 * (b3 <<< 0) + a5 * (b2 <<< 0)
        + a6 * (b1 <<< 0) + a7 * (b0 <<< 0),
      a0 * (b8 <<< 0) + a1 * (b7 <<< 1) + a2 * (b6 <<< 0) + a3 * (b5 <<< 1) + a4 * (b4 <<< 0) + a5 * (b3 <<< 1)
        + a6 * (b2 <<< 0) + a7 * (b1 <<< 1) + a8 * (b0 <<< 0),
      a1 * (b8 <<< 0) + a2 * (b7 <<< 0) + a3 * (b6 <<< 0) + a4 * (b5 <<< 0) + a5 * (b4 <<< 0) + a6 * (b3 <<< 0)
        + a7 * (b2 <<< 0) + a8 * (b1 <<< 0),
      a2 * (b8 <<< 0) + a3 * (b7 <<< 1) + a4 * (b6 <<< 0) + a5 * (b5 <<< 1) + a6 * (b4 <<< 0) + a7 * (b3 <<< 1)
        + a8 * (b2 <<< 0),
      a3 * (b8 <<< 0) + a4 * (b7 <<< 0) + a5 * (b6 <<< 0) + a6 * (b5 <<< 0) + a7 * (b4 <<< 0) + a8 * (b3 <<< 0),
      a4 * (b8 <<< 0) + a5 * (b7 <<< 1) + a6 * (b6 <<< 0) + a7 * (b5 <<< 1) + a8 * (b4 <<< 0),
      a5 * (b8 <<< 0) + a6 * (b7 <<< 0) + a7 * (b6 <<< 0) + a8 * (b5 <<< 0),
      a6 * (b8 <<< 0) + a7 * (b7 <<< 1) + a8 * (b6 <<< 0),
      a7 * (b8 <<< 0) + a8 * (b7 <<< 0),
      a8 * (b8 <<< 0) ]

/-- the 17 words `tmp[0..16]` of `sm2P256Square` -/
def squareLarge (a : Limbs) : Large :=
  let a0 := u64 a[0]; let a1 := u64 a[1]; let a2 := u64 a[2]; let a3 := u64 a[3]; let a4 := u64 a[4]
  let a5 := u64 a[5]; let a6 := u64 a[6]; let a7 := u64 a[7]; let a8 := u64 a[8]
  #v[ a0 * a0,
      a0 * (a1 <<< 1),
      a0 * (a2 <<< 1) + a1 * (a1 <<< 1),
      a0 * (a3 <<< 1) + a1 * (a2 <<< 1),
      a0 * (a4 <<< 1) + a1 * (a3 <<< 2) + a2 * a2,
      a0 * (a5 <<< 1) + a1 * (a4 <<< 1) + a2 * (a3 <<< 1),
      a0 * (a6 <<< 1) + a1 * (a5 <<< 2) + a2 * (a4 <<< 1) + a3 * (a3 <<< 1),
      a0 * (a7 <<< 1) + a1 * (a6 <<< 1) + a2 * (a5 <<< 1) + a3 * (a4 <<< 1),
      a0 * (a8 <<< 1) + a1 * (a7 <<< 2) + a2 * (a6 <<< 1) + a3 * (a5 <<< 2) + a4 * a4,
      a1 * (a8 <<< 1) + a2 * (a7 <<< 1) + a3 * (a6 <<< 1) + a4 * (a5 <<< 1),
      a2 * (a8 <<< 1) + a3 * (a7 <<< 2) + a4 * (a6 <<< 1) + a5 * (a5 <<< 1),
      a3 * (a8 <<< 1) + a4 * (a7 <<< 1) + a5 * (a6 <<< 1),
      a4 * (a8 <<< 1) + a5 * (a7 <<< 2) + a6 * a6,
      a5 * (a8 <<< 1) + a6 * (a7 <<< 1),
      a6 * (a8 <<< 1) + a7 * (a7 <<< 1),
      a7 * (a8 <<< 1),
      a8 * a8 ]

-- sm2P256ReduceDegree --------------------------------------------------------------------------------

/-- `uint32(x)` -/
def lo32 (x : U64) : U32 := x.setWidth 32
/-- `uint32(x >> 32)` -/
def hi32 (x : U64) : U32 := (x >>> 32).setWidth 32

/-- the 18-word temporary `tmp` -/
abbrev Tmp := Vector U32 18

/-- first-loop body for even i (2,4,…,16); `bm2 = b[i-2]`, `bm1 = b[i-1]`, `bi = b[i]`; returns (tmp[i], carry) -/
def rpEven (bm2 bm1 bi : U64) (carry : U32) : U32 × U32 :=
  let t := hi32 bm2 >>> 25                          -- tmp[i] = (uint32(b[i-2] >> 32)) >> 25
  let t := t + (lo32 bm1 >>> 28)                    -- tmp[i] += (uint32(b[i-1])) >> 28
  let t := t + ((hi32 bm1 <<< 4) &&& bottom29Bits)  -- tmp[i] += (uint32(b[i-1]>>32) << 4) & bottom29Bits
  let t := t + (lo32 bi &&& bottom29Bits)           -- tmp[i] += uint32(b[i]) & bottom29Bits
  let t := t + carry                                -- tmp[i] += carry
  (t &&& bottom29Bits, t >>> 29)                    -- carry = tmp[i] >> 29; tmp[i] &= bottom29Bits

/-- first-loop body for odd i (3,5,…,15) -/
def rpOdd (bm2 bm1 bi : U64) (carry : U32) : U32 × U32 :=
  let t := hi32 bm2 >>> 25                          -- tmp[i] = uint32(b[i-2]>>32) >> 25
  let t := t + (lo32 bm1 >>> 29)                    -- tmp[i] += uint32(b[i-1]) >> 29
  let t := t + ((hi32 bm1 <<< 3) &&& bottom28Bits)  -- tmp[i] += ((uint32(b[i-1] >> 32)) << 3) & bottom28Bits
  let t := t + (lo32 bi &&& bottom28Bits)           -- tmp[i] += uint32(b[i]) & bottom28Bits
  let t := t + carry                                -- tmp[i] += carry
  (t &&& bottom28Bits, t >>> 28)                    -- carry = tmp[i] >> 28; tmp[i] &= bottom28Bits

/-- the lines before the first loop: (tmp[0], tmp[1], carry) -/
def rpHead (b0 b1 : U64) : U32 × U32 × U32 :=
  let t0 := lo32 b0 &&& bottom29Bits                -- tmp[0] = uint32(b[0]) & bottom29Bits
  let t1 := lo32 b0 >>> 29                          -- tmp[1] = uint32(b[0]) >> 29
  let t1 := t1 ||| ((hi32 b0 <<< 3) &&& bottom28Bits) -- tmp[1] |= (uint32(b[0]>>32) << 3) & bottom28Bits
  let t1 := t1 + (lo32 b1 &&& bottom28Bits)         -- tmp[1] += uint32(b[1]) & bottom28Bits
  (t0, t1 &&& bottom28Bits, t1 >>> 28)              -- carry = tmp[1] >> 28; tmp[1] &= bottom28Bits

/-- the lines after the first loop: tmp[17] -/
def rpTail (b15 b16 : U64) (carry : U32) : U32 :=
  let t := hi32 b15 >>> 25                          -- tmp[17] = uint32(b[15]>>32) >> 25
  let t := t + (lo32 b16 >>> 29)                    -- tmp[17] += uint32(b[16]) >> 29
  let t := t + (hi32 b16 <<< 3)                     -- tmp[17] += uint32(b[16]>>32) << 3
  t + carry                                         -- tmp[17] += carry

/-- the first part of `sm2P256ReduceDegree`: 17 uint64 words repacked into 18 uint32 words -/
def repack (b : Large) : Tmp :=
  let h := rpHead b[0] b[1]
  let r2 := rpEven b[0] b[1] b[2] h.2.2
  let r3 := rpOdd b[1] b[2] b[3] r2.2
  let r4 := rpEven b[2] b[3] b[4] r3.2
  let r5 := rpOdd b[3] b[4] b[5] r4.2
  let r6 := rpEven b[4] b[5] b[6] r5.2
  let r7 := rpOdd b[5] b[6] b[7] r6.2
  let r8 := rpEven b[6] b[7] b[8] r7.2
  let r9 := rpOdd b[7] b[8] b[9] r8.2
  let r10 := rpEven b[8] b[9] b[10] r9.2
  let r11 := rpOdd b[9] b[10] b[11] r10.2
  let r12 := rpEven b[10] b[11] b[12] r11.2
  let r13 := rpOdd b[11] b[12] b[13] r12.2
  let r14 := rpEven b[12] b[13] b[14] r13.2
  let r15 := rpOdd b[13] b[14] b[15] r14.2
  let r16 := rpEven b[14] b[15] b[16] r15.2
  let t17 := rpTail b[15] b[16] r16.2
  #v[h.1, h.2.1, r2.1, r3.1, r4.1, r5.1, r6.1, r7.1, r8.1, r9.1, r10.1, r11.1, r12.1, r13.1, r14.1, r15.1,
     r16.1, t17]

/-- ten consecutive words of `tmp`: the part one iteration of the elimination loop reads and writes -/
structure Win where
  t0 : U32
  t1 : U32
  t2 : U32
  t3 : U32
  t4 : U32
  t5 : U32
  t6 : U32
  t7 : U32
  t8 : U32
  t9 : U32
deriving DecidableEq, Repr

/- Elimination loop, first half of the body (even index i); `tK` stands for `tmp[i+K]`. -/

/-- `if tmp[i+3] < 0x10000000 {…} else {…}`; returns (tmp[i+3], set4) -/
def evA (x xMask t3 : U32) : U32 × U32 :=
  if t3 < 0x10000000 then
    let t3 := t3 + (0x10000000 &&& xMask)           -- set4 = 1; tmp[i+3] += 0x10000000 & xMask
    let t3 := t3 - ((x <<< 10) &&& bottom28Bits)    -- tmp[i+3] -= (x << 10) & bottom28Bits
    (t3, 1)
  else
    let t3 := t3 - ((x <<< 10) &&& bottom28Bits)    -- tmp[i+3] -= (x << 10) & bottom28Bits
    (t3, 0)

/-- `if tmp[i+4] < 0x20000000 {…} else {…}`; returns (tmp[i+4], tmp[i+5], tmp[i+6], set7) -/
def evB (x xMask set4 t4 t5 t6 : U32) : U32 × U32 × U32 × U32 :=
  if t4 < 0x20000000 then
    let t4 := t4 + (0x20000000 &&& xMask)           -- tmp[i+4] += 0x20000000 & xMask
    let t4 := t4 - set4                             -- tmp[i+4] -= set4
    let t4 := t4 - (x >>> 18)                       -- tmp[i+4] -= x >> 18
    if t5 < 0x10000000 then
      let t5 := t5 + (0x10000000 &&& xMask)         -- tmp[i+5] += 0x10000000 & xMask
      let t5 := t5 - 1                              -- tmp[i+5] -= 1
      if t6 < 0x20000000 then
        let t6 := t6 + (0x20000000 &&& xMask)       -- set7 = 1; tmp[i+6] += 0x20000000 & xMask
        let t6 := t6 - 1                            -- tmp[i+6] -= 1
        (t4, t5, t6, 1)
      else
        let t6 := t6 - 1                            -- tmp[i+6] -= 1
        (t4, t5, t6, 0)
    else
      let t5 := t5 - 1                              -- tmp[i+5] -= 1
      (t4, t5, t6, 0)
  else
    let t4 := t4 - set4                             -- tmp[i+4] -= set4
    let t4 := t4 - (x >>> 18)                       -- tmp[i+4] -= x >> 18
    (t4, t5, t6, 0)

/-- the borrow test on `tmp[i+8]` in the first half of the body.  Unrepaired source: `tmp[i+8] < 0x20000000`;
    repaired source: `tmp[i+8] < 0x20000000 && (x > 1 || tmp[i+9] != 0)` (for x = 1 and tmp[i+9] = 0 the
    old code added `(x >> 1) - 1 = 0xffffffff` to `tmp[i+9]`, which wrapped to 2^32 - 1). -/
def borrow8 (repaired : Bool) (x t8 t9 : U32) : Bool :=
  if repaired then decide (t8 < 0x20000000) && (decide (x > 1) || t9 != 0) else decide (t8 < 0x20000000)

/-- `if tmp[i+7] < 0x10000000 {…} else {…}`; returns (tmp[i+7], tmp[i+8], tmp[i+9]) -/
def evC (rep : Bool) (x xMask set7 t7 t8 t9 : U32) : U32 × U32 × U32 :=
  if t7 < 0x10000000 then
    let t7 := t7 + (0x10000000 &&& xMask)           -- tmp[i+7] += 0x10000000 & xMask
    let t7 := t7 - set7                             -- tmp[i+7] -= set7
    let t7 := t7 - ((x <<< 24) &&& bottom28Bits)    -- tmp[i+7] -= (x << 24) & bottom28Bits
    let t8 := t8 + ((x <<< 28) &&& bottom29Bits)    -- tmp[i+8] += (x << 28) & bottom29Bits
    if borrow8 rep x t8 t9 then
      let t8 := t8 + (0x20000000 &&& xMask)         -- tmp[i+8] += 0x20000000 & xMask
      let t8 := t8 - 1                              -- tmp[i+8] -= 1
      let t8 := t8 - (x >>> 4)                      -- tmp[i+8] -= x >> 4
      let t9 := t9 + (((x >>> 1) - 1) &&& xMask)    -- tmp[i+9] += ((x >> 1) - 1) & xMask
      (t7, t8, t9)
    else
      let t8 := t8 - 1                              -- tmp[i+8] -= 1
      let t8 := t8 - (x >>> 4)                      -- tmp[i+8] -= x >> 4
      let t9 := t9 + ((x >>> 1) &&& xMask)          -- tmp[i+9] += (x >> 1) & xMask
      (t7, t8, t9)
  else
    let t7 := t7 - set7                             -- tmp[i+7] -= set7
    let t7 := t7 - ((x <<< 24) &&& bottom28Bits)    -- tmp[i+7] -= (x << 24) & bottom28Bits
    let t8 := t8 + ((x <<< 28) &&& bottom29Bits)    -- tmp[i+8] += (x << 28) & bottom29Bits
    if borrow8 rep x t8 t9 then
      let t8 := t8 + (0x20000000 &&& xMask)         -- tmp[i+8] += 0x20000000 & xMask
      let t8 := t8 - (x >>> 4)                      -- tmp[i+8] -= x >> 4
      let t9 := t9 + (((x >>> 1) - 1) &&& xMask)    -- tmp[i+9] += ((x >> 1) - 1) & xMask
      (t7, t8, t9)
    else
      let t8 := t8 - (x >>> 4)                      -- tmp[i+8] -= x >> 4
      let t9 := t9 + ((x >>> 1) &&& xMask)          -- tmp[i+9] += (x >> 1) & xMask
      (t7, t8, t9)

/-- first half of the loop body (`tmp[i+1] += tmp[i] >> 29 … ` up to `if i+1 == 9 {break}`) on
    `w = tmp[i..i+9]` -/
def rdEven (rep : Bool) (w : Win) : Win :=
  let t1 := w.t1 + (w.t0 >>> 29)                    -- tmp[i+1] += tmp[i] >> 29
  let x := w.t0 &&& bottom29Bits                    -- x = tmp[i] & bottom29Bits
  let t0 : U32 := 0                                 -- tmp[i] = 0
  if x > 0 then
    let xMask := nonZeroToAllOnes x                 -- xMask = nonZeroToAllOnes(x)
    let t2 := w.t2 + ((x <<< 7) &&& bottom29Bits)   -- tmp[i+2] += (x << 7) & bottom29Bits
    let t3 := w.t3 + (x >>> 22)                     -- tmp[i+3] += x >> 22
    let a := evA x xMask t3
    let b := evB x xMask a.2 w.t4 w.t5 w.t6
    let c := evC rep x xMask b.2.2.2 w.t7 w.t8 w.t9
    ⟨t0, t1, t2, a.1, b.1, b.2.1, b.2.2.1, c.1, c.2.1, c.2.2⟩
  else
    ⟨t0, t1, w.t2, w.t3, w.t4, w.t5, w.t6, w.t7, w.t8, w.t9⟩

/- Elimination loop, second half of the body (odd index i+1); `tK` stands for `tmp[i+1+K]`. -/

/-- `if tmp[i+4] < 0x20000000 {…} else {…}`; returns (tmp[i+4], set5) -/
def odA (x xMask t3 : U32) : U32 × U32 :=
  if t3 < 0x20000000 then
    let t3 := t3 + (0x20000000 &&& xMask)           -- set5 = 1; tmp[i+4] += 0x20000000 & xMask
    let t3 := t3 - ((x <<< 11) &&& bottom29Bits)    -- tmp[i+4] -= (x << 11) & bottom29Bits
    (t3, 1)
  else
    let t3 := t3 - ((x <<< 11) &&& bottom29Bits)    -- tmp[i+4] -= (x << 11) & bottom29Bits
    (t3, 0)

/-- `if tmp[i+5] < 0x10000000 {…} else {…}`; returns (tmp[i+5], tmp[i+6], tmp[i+7], set8) -/
def odB (x xMask set5 t4 t5 t6 : U32) : U32 × U32 × U32 × U32 :=
  if t4 < 0x10000000 then
    let t4 := t4 + (0x10000000 &&& xMask)           -- tmp[i+5] += 0x10000000 & xMask
    let t4 := t4 - set5                             -- tmp[i+5] -= set5
    let t4 := t4 - (x >>> 18)                       -- tmp[i+5] -= x >> 18
    if t5 < 0x20000000 then
      let t5 := t5 + (0x20000000 &&& xMask)         -- tmp[i+6] += 0x20000000 & xMask
      let t5 := t5 - 1                              -- tmp[i+6] -= 1
      if t6 < 0x10000000 then
        let t6 := t6 + (0x10000000 &&& xMask)       -- set8 = 1; tmp[i+7] += 0x10000000 & xMask
        let t6 := t6 - 1                            -- tmp[i+7] -= 1
        (t4, t5, t6, 1)
      else
        let t6 := t6 - 1                            -- tmp[i+7] -= 1
        (t4, t5, t6, 0)
    else
      let t5 := t5 - 1                              -- tmp[i+6] -= 1
      (t4, t5, t6, 0)
  else
    let t4 := t4 - set5                             -- tmp[i+5] -= set5
    let t4 := t4 - (x >>> 18)                       -- tmp[i+5] -= x >> 18
    (t4, t5, t6, 0)

/-- `if tmp[i+8] < 0x20000000 {…} else {…}`; returns (tmp[i+8], set9) -/
def odC (x xMask set8 t7 : U32) : U32 × U32 :=
  if t7 < 0x20000000 then
    let t7 := t7 + (0x20000000 &&& xMask)           -- set9 = 1; tmp[i+8] += 0x20000000 & xMask
    let t7 := t7 - set8                             -- tmp[i+8] -= set8
    let t7 := t7 - ((x <<< 25) &&& bottom29Bits)    -- tmp[i+8] -= (x << 25) & bottom29Bits
    (t7, 1)
  else
    let t7 := t7 - set8                             -- tmp[i+8] -= set8
    let t7 := t7 - ((x <<< 25) &&& bottom29Bits)    -- tmp[i+8] -= (x << 25) & bottom29Bits
    (t7, 0)

/-- `if tmp[i+9] < 0x10000000 {…} else {…}`; returns (tmp[i+9], tmp[i+10]) -/
def odD (x xMask set9 t8 t9 : U32) : U32 × U32 :=
  if t8 < 0x10000000 then
    let t8 := t8 + (0x10000000 &&& xMask)           -- tmp[i+9] += 0x10000000 & xMask
    let t8 := t8 - set9                             -- tmp[i+9] -= set9
    let t8 := t8 - (x >>> 4)                        -- tmp[i+9] -= x >> 4
    let t9 := t9 + ((x - 1) &&& xMask)              -- tmp[i+10] += (x - 1) & xMask
    (t8, t9)
  else
    let t8 := t8 - set9                             -- tmp[i+9] -= set9
    let t8 := t8 - (x >>> 4)                        -- tmp[i+9] -= x >> 4
    let t9 := t9 + (x &&& xMask)                    -- tmp[i+10] += x & xMask
    (t8, t9)

/-- second half of the loop body (`tmp[i+2] += tmp[i+1] >> 28 …`) on `w = tmp[i+1..i+10]` -/
def rdOdd (w : Win) : Win :=
  let t1 := w.t1 + (w.t0 >>> 28)                    -- tmp[i+2] += tmp[i+1] >> 28
  let x := w.t0 &&& bottom28Bits                    -- x = tmp[i+1] & bottom28Bits
  let t0 : U32 := 0                                 -- tmp[i+1] = 0
  if x > 0 then
    let xMask := nonZeroToAllOnes x                 -- xMask = nonZeroToAllOnes(x)
    let t2 := w.t2 + ((x <<< 7) &&& bottom28Bits)   -- tmp[i+3] += (x << 7) & bottom28Bits
    let t3 := w.t3 + (x >>> 21)                     -- tmp[i+4] += x >> 21
    let a := odA x xMask t3
    let b := odB x xMask a.2 w.t4 w.t5 w.t6
    let c := odC x xMask b.2.2.2 w.t7
    let d := odD x xMask c.2 w.t8 w.t9
    ⟨t0, t1, t2, a.1, b.1, b.2.1, b.2.2.1, c.1, d.1, d.2⟩
  else
    ⟨t0, t1, w.t2, w.t3, w.t4, w.t5, w.t6, w.t7, w.t8, w.t9⟩

/-- `tmp[j..j+9]` -/
def getWin (tmp : Tmp) (j : Nat) (h : j + 9 < 18 := by decide) : Win :=
  ⟨tmp[j], tmp[j+1], tmp[j+2], tmp[j+3], tmp[j+4], tmp[j+5], tmp[j+6], tmp[j+7], tmp[j+8], tmp[j+9]⟩

/-- write `tmp[j..j+9]` back -/
def setWin (tmp : Tmp) (j : Nat) (w : Win) (h : j + 9 < 18 := by decide) : Tmp :=
  ((((((((((tmp.set j w.t0).set (j+1) w.t1).set (j+2) w.t2).set (j+3) w.t3).set (j+4) w.t4).set (j+5) w.t5).set
    (j+6) w.t6).set (j+7) w.t7).set (j+8) w.t8).set (j+9) w.t9)

/-- one elimination step at position j (even j: first half of the body with i = j, odd j: second half
    with i = j-1) -/
def elimEven (rep : Bool) (tmp : Tmp) (j : Nat) (h : j + 9 < 18 := by decide) : Tmp :=
  setWin tmp j (rdEven rep (getWin tmp j h)) h
def elimOdd (tmp : Tmp) (j : Nat) (h : j + 9 < 18 := by decide) : Tmp := setWin tmp j (rdOdd (getWin tmp j h)) h

/-- the elimination loop `for i := 0; ; i += 2 { … if i+1 == 9 {break} … }`: positions 0..8 -/
def eliminate (rep : Bool) (tmp : Tmp) : Tmp :=
  let tmp := elimEven rep tmp 0
  let tmp := elimOdd tmp 1
  let tmp := elimEven rep tmp 2
  let tmp := elimOdd tmp 3
  let tmp := elimEven rep tmp 4
  let tmp := elimOdd tmp 5
  let tmp := elimEven rep tmp 6
  let tmp := elimOdd tmp 7
  let tmp := elimEven rep tmp 8
  tmp

/-- last-loop body, even i: returns (a[i], carry) -/
def outEven (ti9 ti10 carry : U32) : U32 × U32 :=
  let ai := ti9                                     -- a[i] = tmp[i+9]
  let ai := ai + carry                              -- a[i] += carry
  let ai := ai + ((ti10 <<< 28) &&& bottom29Bits)   -- a[i] += (tmp[i+10] << 28) & bottom29Bits
  (ai &&& bottom29Bits, ai >>> 29)                  -- carry = a[i] >> 29; a[i] &= bottom29Bits

/-- last-loop body, odd i (after `i++`): returns (a[i], carry) -/
def outOdd (ti9 carry : U32) : U32 × U32 :=
  let ai := ti9 >>> 1                               -- a[i] = tmp[i+9] >> 1
  let ai := ai + carry                              -- a[i] += carry
  (ai &&& bottom28Bits, ai >>> 28)                  -- carry = a[i] >> 28; a[i] &= bottom28Bits

/-- the last loop and the lines after it (before `sm2P256ReduceCarry`): returns (a, carry) -/
def outChain (tmp : Tmp) : Limbs × U32 :=
  let r0 := outEven tmp[9] tmp[10] 0
  let r1 := outOdd tmp[10] r0.2
  let r2 := outEven tmp[11] tmp[12] r1.2
  let r3 := outOdd tmp[12] r2.2
  let r4 := outEven tmp[13] tmp[14] r3.2
  let r5 := outOdd tmp[14] r4.2
  let r6 := outEven tmp[15] tmp[16] r5.2
  let r7 := outOdd tmp[16] r6.2
  let a8 := tmp[17]                                 -- a[8] = tmp[17]
  let a8 := a8 + r7.2                               -- a[8] += carry
  (#v[r0.1, r1.1, r2.1, r3.1, r4.1, r5.1, r6.1, r7.1, a8 &&& bottom29Bits], a8 >>> 29)

/-- `sm2P256ReduceDegree(a, b)`; `rep = true`: the repaired source, `rep = false`: the source as found -/
def reduceDegreeGen (rep : Bool) (b : Large) : Limbs :=
  let tmp := repack b
  let tmp := eliminate rep tmp
  let r := outChain tmp
  reduceCarry r.1 r.2

/-- `sm2P256ReduceDegree(a, b)` (repaired source) -/
def reduceDegree (b : Large) : Limbs := reduceDegreeGen true b
/-- `sm2P256ReduceDegree(a, b)` as found (before the repair) -/
def reduceDegreeOld (b : Large) : Limbs := reduceDegreeGen false b

/-- `sm2P256Mul(c, a, b)` -/
def mul (a b : Limbs) : Limbs := reduceDegree (mulLarge a b)
def mulOld (a b : Limbs) : Limbs := reduceDegreeOld (mulLarge a b)

/-- `sm2P256Square(b, a)` -/
def square (a : Limbs) : Limbs := reduceDegree (squareLarge a)
def squareOld (a : Limbs) : Limbs := reduceDegreeOld (squareLarge a)

/-- `sm2P256Scalar(b, a)`: `sm2P256Mul(b, b, &sm2P256Factor[a])` (Go panics for a > 8; here: factor 0) -/
def scalar (b : Limbs) (a : Nat) : Limbs := mul b (factor.toArray.getD a factor[0])

/-- `sm2P256Dup` -/
def dup (a : Limbs) : Limbs := a

/-- `sm2P256CopyConditional(out, in, mask)`: `tmp := mask & (in[i] ^ out[i]); out[i] ^= tmp` -/
def copyConditional (out inp : Limbs) (mask : U32) : Limbs :=
  Vector.zipWith (fun o i => o ^^^ (mask &&& (i ^^^ o))) out inp

-- sm2P256FromBig / sm2P256ToBig ----------------------------------------------------------------------

/-- `X[i] = uint32(bits[0]) & bottom29Bits` (0 when x = 0) -/
def low29 (x : Nat) : U32 := BitVec.ofNat 32 x &&& bottom29Bits
def low28 (x : Nat) : U32 := BitVec.ofNat 32 x &&& bottom28Bits

/-- `sm2P256FromBig(X, a)` for a ≥ 0: `x = (a << 257) mod p`, then limbs of 29/28 bits, shifting x right -/
def fromBig (a : Nat) : Limbs :=
  let x := (a <<< 257) % P
  let x0 := low29 x; let x := x >>> 29
  let x1 := low28 x; let x := x >>> 28
  let x2 := low29 x; let x := x >>> 29
  let x3 := low28 x; let x := x >>> 28
  let x4 := low29 x; let x := x >>> 29
  let x5 := low28 x; let x := x >>> 28
  let x6 := low29 x; let x := x >>> 29
  let x7 := low28 x; let x := x >>> 28
  let x8 := low29 x
  #v[x0, x1, x2, x3, x4, x5, x6, x7, x8]

/-- `sm2P256ToBig(X)`: Horner from X[8] down with shifts 28/29, then `· RInverse mod p` -/
def toBig (X : Limbs) : Nat :=
  let r := X[8].toNat
  let r := (r <<< 28) + X[7].toNat      -- i = 7 (odd): r.Lsh(r, 28); r.Add(r, X[7])
  let r := (r <<< 29) + X[6].toNat      -- i = 6
  let r := (r <<< 28) + X[5].toNat
  let r := (r <<< 29) + X[4].toNat
  let r := (r <<< 28) + X[3].toNat
  let r := (r <<< 29) + X[2].toNat
  let r := (r <<< 28) + X[1].toNat
  let r := (r <<< 29) + X[0].toNat
  r * RInverse % P

end Model.P256Limbs
