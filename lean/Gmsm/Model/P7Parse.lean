/-
x509/pkcs7.go: what `parseSignedData` does with the decoded SignedData (the error of the decoder, the
content OCTET STRING in its primitive and constructed forms) and the recipient key-type test of
`encryptKey` / `encryptKeySM2` (`PKCS7Encrypt` / `PKCS7EncryptSM2`).

Modelled: the decisions of the Go code after `encoding/asn1` has done its work.
Not modelled (trusted): the DER/BER codecs (`ber2der` is Model.BER), the certificate parser, the key
wrap and the content encryption (Model.PKCS7 has the recipient logic over abstract primitives).

All three functions are the code AFTER their repairs:
 * `parseSignedData` returned success for a body on which `asn1.Unmarshal(data, &sd)` had failed (the
   error was dropped): `unmarshalOk = false` gave `.ok` with whatever had been filled in;
 * for a constructed content OCTET STRING only the FIRST segment was read: Content was silently
   truncated and the genuine signature was refused;
 * a recipient certificate of the other key type was an unchecked type assertion: a panic
   (`encryptRecipientsOld` in Props/C17Fix.lean writes it as `.panic`).

Core Lean only; executable.
-/
import Gmsm.Util.Bytes
namespace Gmsm.Model.P7Parse
open Gmsm

-- the content of a SignedData ----------------------------------------------------------------------------------

/-- a member of a constructed OCTET STRING as `asn1.Unmarshal(rest, &part)` (`part []byte`) sees it -/
inductive Segment
  | prim (b : Bytes)     -- a primitive OCTET STRING
  | notOctets            -- anything else (another tag, or an OCTET STRING that is itself constructed): refused
deriving Repr, DecidableEq

/-- `sd.ContentInfo.Content` after the explicit [0] wrapper -/
inductive Content
  | absent                              -- detached signature / degenerate (certificates only)
  | primitive (b : Bytes)               -- `04 len bytes`
  | constructed (segs : List Segment)   -- `24 len seg seg ...` (after `ber2der`: definite length)
deriving Repr, DecidableEq

inductive PErr | unmarshal | certificates | contentSegment
deriving Repr, DecidableEq

/-- the loop over the segments: every one must be a primitive OCTET STRING, the content is their concatenation -/
def concatSegments : List Segment → Except PErr Bytes
  | [] => .ok []
  | .prim b :: rest =>
    match concatSegments rest with
    | .ok t => .ok (b ++ t)
    | .error e => .error e
  | .notOctets :: _ => .error .contentSegment

/-- the `Content` field of the returned object -/
def contentOf : Content → Except PErr Bytes
  | .absent => .ok []
  | .primitive b => .ok b
  | .constructed segs => concatSegments segs

/-- what `asn1.Unmarshal(data, &sd)` and `sd.Certificates.Parse()` report, and the content node -/
structure Decoded where
  unmarshalOk : Bool
  certsOk : Bool
  content : Content
deriving Repr, DecidableEq

/-- `parseSignedData`: the Content of the object it returns, or its error -/
def parseSignedData (d : Decoded) : Except PErr Bytes :=
  if ¬ d.unmarshalOk then .error .unmarshal          -- (repaired: the error is returned)
  else if ¬ d.certsOk then .error .certificates
  else contentOf d.content

-- recipient key types ------------------------------------------------------------------------------------------

/-- the dynamic type of `recipient.PublicKey` -/
inductive KeyKind
  | rsa       -- *rsa.PublicKey
  | ec        -- *ecdsa.PublicKey (SM2 certificates carry this type, on the SM2 curve)
  | other     -- anything else (DSA, nil ...)
deriving Repr, DecidableEq

/-- which entry point: `PKCS7Encrypt` wraps the content key with RSA, `PKCS7EncryptSM2` with SM2 -/
inductive Api | rsa | sm2
deriving Repr, DecidableEq

def Api.wants : Api → KeyKind
  | .rsa => .rsa
  | .sm2 => .ec

/-- `encryptKey` / `encryptKeySM2`: `true` = the key is wrapped, `false` = ErrPKCS7UnsupportedAlgorithm -/
def encryptKey (api : Api) (k : KeyKind) : Bool := k = api.wants

/-- the recipient loop of `PKCS7Encrypt*`: the first recipient that cannot be served ends it with that error;
    `true` = an envelope for all recipients is written -/
def encryptRecipients (api : Api) : List KeyKind → Bool
  | [] => true
  | k :: rest => if encryptKey api k then encryptRecipients api rest else false

end Gmsm.Model.P7Parse
