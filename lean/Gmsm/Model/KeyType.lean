/-
Key types of the certificates the two ends of a gmtls handshake are configured with: which combinations of
(server mode, how the server is given its certificates and with which keys, kind of client, how the client is given
its certificate and with which key, ClientAuth policy) complete, which fail on both sides - and which would crash.

The model follows the Go code step by step where key types matter:
  * `Config.getCertificate` / `getEKCertificate` (common.go): a `GetCertificate` callback is consulted when
    `Certificates` is empty or the client sent SNI; the encryption certificate is `Certificates[1]`;
  * the two GMSSL slots: `readClientHello` of the GMSSL-only server takes `Certificates[0..1]` directly,
    `processClientHelloGM` of the auto-switch server goes through `getCertificate` / `getEKCertificate`;
  * `eccKeyAgreementGM.generateServerKeyExchange` (gm_key_agreement.go) and the CertificateVerify of
    `clientHandshakeStateGM.doFullHandshake` (gm_handshake_client_double.go) sign with `Sign(rand, digest, nil)`:
    an SM2 key signs, an ECDSA key signs (it ignores the options), an RSA key dereferences the nil options and
    panics (`signNilOpts false`).  The repaired code refuses every key that is not SM2 before signing
    (`signNilOpts true`);
  * the GMSSL client accepts only SM2 server certificates; its static `Certificates` are filtered for SM2 keys, the
    certificate of a `GetClientCertificate` callback is taken as it is;
  * the TLS server refuses an SM2 key in `readClientHello` ("unsupported signing key type");
  * `pickSignatureAlgorithm` (auth.go) is run by the signer on `key.Public()` (an `*sm2.PublicKey` for an SM2 key)
    and by the verifier on the key of the parsed certificate (an `*ecdsa.PublicKey` on the SM2 curve): the
    CertificateVerify is accepted when both arrive at the same signature type and digest.
`Fixes` switches the three repairs on and off: `repaired` is the code as it is now, `original` the code as it was.
Core Lean only; executable.
-/
namespace Model.KeyType

inductive KeyT | sm2 | rsa | ec
deriving DecidableEq, Repr

inductive Mode | gm | auto | tls
deriving DecidableEq, Repr

inductive Ver | tls10 | tls11 | tls12
deriving DecidableEq, Repr

def Ver.num : Ver → Nat
  | .tls10 => 0x0301 | .tls11 => 0x0302 | .tls12 => 0x0303

def versionGMSSL : Nat := 0x0101

/-- a GMSSL client, or a TLS client with the given maximum version; `sni`: the ClientHello names the server -/
inductive Client | gm (sni : Bool) | tls (v : Ver) (sni : Bool)
deriving DecidableEq, Repr

def Client.sni : Client → Bool
  | .gm s => s | .tls _ s => s

def Client.isGM : Client → Bool
  | .gm _ => true | .tls _ _ => false

/-- a `GetCertificate` callback: the version switch of `NewBasicAutoSwitchConfig` (SM2 signing certificate for a
    GMSSL hello, the RSA certificate otherwise), or one that serves the same certificate to everybody -/
inductive GetCert | byVersion | always (k : KeyT)
deriving DecidableEq, Repr

structure Server where
  mode : Mode
  static : List KeyT            -- key types of `Config.Certificates`, in order
  getCert : Option GetCert      -- `Config.GetCertificate`
deriving Repr

/-- how the client is given its certificate -/
inductive CCert
  | none                -- no certificate configured
  | static (k : KeyT)   -- `Config.Certificates = {k}`
  | cb (k : KeyT)       -- `GetClientCertificate` returns a certificate with key k
  | cbEmpty             -- `GetClientCertificate` returns an empty Certificate: send none
  | cbErr               -- `GetClientCertificate` returns an error
deriving DecidableEq, Repr

inductive Policy | noCert | request | requireAny | verifyIfGiven | requireAndVerify
deriving DecidableEq, Repr

def Policy.requests : Policy → Bool
  | .noCert => false | _ => true

def Policy.requires : Policy → Bool
  | .requireAny => true | .requireAndVerify => true | _ => false

structure Fixes where
  clientGuard : Bool   -- GMSSL client: refuse a client certificate key that is not SM2 before signing
  serverGuard : Bool   -- GMSSL server: refuse a signing key that is not SM2 before signing
  legacySm2 : Bool     -- pickSignatureAlgorithm below TLS 1.2: an *sm2.PublicKey is treated like the peer sees it
deriving DecidableEq, Repr

def repaired : Fixes := ⟨true, true, true⟩
def original : Fixes := ⟨false, false, false⟩

inductive Outcome
  | ok (vers ccerts : Nat)   -- both ends complete; the server saw `ccerts` client certificates
  | fail                     -- both ends return an error
  | crash                    -- one end panics
deriving DecidableEq, Repr

/-! ### certificate selection on the server -/

def GetCert.serve : GetCert → Client → KeyT
  | .byVersion, c => if c.isGM then .sm2 else .rsa
  | .always k, _ => k

/-- `Config.getCertificate` (no NameToCertificate): the callback when there is one and `Certificates` is empty or
    the client sent SNI, otherwise `Certificates[0]`, an error when there is none -/
def getCertificate (s : Server) (c : Client) : Option KeyT :=
  match s.getCert with
  | some cb => if s.static.isEmpty || c.sni then some (cb.serve c) else s.static.head?
  | none => s.static.head?

/-- `Config.getEKCertificate` without a `GetKECertificate` callback: `Certificates[1]` -/
def getEKCertificate (s : Server) : Option KeyT :=
  match s.static with
  | _ :: b :: _ => some b
  | _ => none

/-- the (signing, encryption) certificates of the GMSSL handshake -/
def gmSlots (s : Server) (c : Client) : Option (KeyT × KeyT) :=
  match s.mode, s.static with
  | .gm, a :: b :: _ => some (a, b)          -- readClientHello: two static certificates are taken as they are
  | _, _ =>
    match getCertificate s c, getEKCertificate s with
    | some a, some b => some (a, b)
    | _, _ => none

/-! ### signing with nil SignerOpts -/

inductive SignRes | signed | refused | crash
deriving DecidableEq, Repr

/-- `key.Sign(rand, digest, nil)`, behind the guard `key.Public().(*sm2.PublicKey)` when `guard` -/
def signNilOpts (guard : Bool) (k : KeyT) : SignRes :=
  if guard then (if k = .sm2 then .signed else .refused)
  else match k with
    | .sm2 => .signed
    | .ec => .signed      -- ecdsa.PrivateKey.Sign ignores the options
    | .rsa => .crash      -- rsa.PrivateKey.Sign calls opts.HashFunc() on the nil interface

/-! ### the client's certificate -/

inductive Chain | error | send (k : Option KeyT)
deriving DecidableEq, Repr

/-- `clientHandshakeStateGM.getCertificate`: static certificates are filtered for SM2 keys, the callback's is not -/
def clientChainGM : CCert → Chain
  | .none => .send none
  | .static k => if k = .sm2 then .send (some k) else .send none
  | .cb k => .send (some k)
  | .cbEmpty => .send none
  | .cbErr => .error

/-- `clientHandshakeState.getCertificate` (TLS): RSA and ECDSA certificates (an SM2 certificate is one) are all
    acceptable to a server that lists rsa_sign and ecdsa_sign -/
def clientChainTLS : CCert → Chain
  | .none => .send none
  | .static k => .send (some k)
  | .cb k => .send (some k)
  | .cbEmpty => .send none
  | .cbErr => .error

/-! ### pickSignatureAlgorithm -/

/-- the Go type of a public key as the code sees it -/
inductive GoPub | rsa | ecdsa | sm2
deriving DecidableEq, Repr

/-- `key.Public()` of the private key -/
def signerPub : KeyT → GoPub
  | .sm2 => .sm2 | .rsa => .rsa | .ec => .ecdsa

/-- `x509.ParseCertificate(..).PublicKey`: an SM2 key is an `*ecdsa.PublicKey` on the SM2 curve -/
def parsedPub : KeyT → GoPub
  | .sm2 => .ecdsa | .rsa => .rsa | .ec => .ecdsa

inductive SigType | pkcs1 | ecdsa | sm2
deriving DecidableEq, Repr

inductive Digest | md5sha1 | sha1 | negotiated
deriving DecidableEq, Repr

/-- (signature type, digest of the handshake that is signed): below TLS 1.2 the fixed choice of
    `pickSignatureAlgorithm` and `hashForClientCertificate` (SHA-1 for ECDSA, MD5‖SHA-1 for everything else);
    in TLS 1.2 the negotiated hash, and SM2 keys of either Go type end in signatureECDSA -/
def pick (f : Fixes) (v : Ver) (p : GoPub) : SigType × Digest :=
  match v with
  | .tls12 =>
    match p with
    | .rsa => (.pkcs1, .negotiated)
    | .ecdsa => (.ecdsa, .negotiated)
    | .sm2 => (.ecdsa, .negotiated)
  | _ =>
    match p with
    | .rsa => (.pkcs1, .md5sha1)
    | .ecdsa => (.ecdsa, .sha1)
    | .sm2 => if f.legacySm2 then (.ecdsa, .sha1) else (.sm2, .md5sha1)

/-! ### the two handshakes -/

def afterChain (vers : Nat) (p : Policy) (ch : Chain) (sign : KeyT → Outcome) : Outcome :=
  if !p.requests then .ok vers 0
  else match ch with
    | .error => .fail
    | .send none => if p.requires then .fail else .ok vers 0
    | .send (some k) => sign k

/-- the GMSSL handshake once the (signing, encryption) certificates are chosen -/
def gmCore (f : Fixes) (sg en : KeyT) (cc : CCert) (p : Policy) : Outcome :=
  match signNilOpts f.serverGuard sg with        -- generateServerKeyExchange
  | .crash => .crash
  | .refused => .fail
  | .signed =>
    -- the client accepts SM2 certificates only (and encrypts the pre-master secret with SM2)
    if sg ≠ .sm2 ∨ en ≠ .sm2 then .fail
    else afterChain versionGMSSL p (clientChainGM cc) fun k =>
      match signNilOpts f.clientGuard k with     -- CertificateVerify
      | .crash => .crash
      | .refused => .fail
      | .signed => .ok versionGMSSL 1            -- the server verifies with the algorithm of the certificate's key

def gmPath (f : Fixes) (s : Server) (c : Client) (cc : CCert) (p : Policy) : Outcome :=
  match gmSlots s c with
  | none => .fail
  | some (sg, en) => gmCore f sg en cc p

/-- the TLS handshake once the server's certificate is chosen -/
def tlsCore (f : Fixes) (k : KeyT) (v : Ver) (cc : CCert) (p : Policy) : Outcome :=
  match k with
  | .sm2 => .fail                                -- "tls: unsupported signing key type"
  | _ =>
    afterChain v.num p (clientChainTLS cc) fun k =>
      if pick f v (signerPub k) = pick f v (parsedPub k) then .ok v.num 1 else .fail

def tlsPath (f : Fixes) (s : Server) (v : Ver) (sni : Bool) (cc : CCert) (p : Policy) : Outcome :=
  match getCertificate s (.tls v sni) with
  | none => .fail
  | some k => tlsCore f k v cc p

/-- the verdict for one connection -/
def verdict (f : Fixes) (s : Server) (c : Client) (cc : CCert) (p : Policy) : Outcome :=
  match s.mode, c with
  | .gm, .gm _ => gmPath f s c cc p
  | .gm, .tls _ _ => .fail
  | .tls, .gm _ => .fail
  | .tls, .tls v sni => tlsPath f s v sni cc p
  | .auto, .gm _ => gmPath f s c cc p
  | .auto, .tls v sni => tlsPath f s v sni cc p

end Model.KeyType
