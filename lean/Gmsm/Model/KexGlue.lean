/-
Model of the byte-level glue of sm2/sm2.go around the curve operations: `intToBytes`, `BytesCombine`,
`kdf`, `ZA`, `msgHash`, `Sm3Digest`, `zeroByteSlice`, the `to32` closure and the assembly of
k, hash, S1, S2 inside `keyExchange` (given the shared point V).  Step-for-step transcription; every
hash goes through the hash OBJECT of sm3/sm3.go (`Model.SM3.State`: `init` = `New`/`Reset`, `write`,
`sum`) or the one-shot `Model.SM3.sm3Sum`, so the dependence on the streaming laws is explicit.
`big.Int.Bytes()` is `Gmsm.natBytes` (minimal big-endian, empty for 0).  The curve constants written
by `ZA` are the regenerated ones (`Gen.SM2.paramA/B/Gx/Gy`).  Core Lean only; executable.
-/
import Gmsm.Model.SM3
import Gmsm.Gen.SM2Params
namespace Model.KexGlue
open Gmsm Model.SM3

/-- `intToBytes(x)`: `binary.BigEndian.PutUint32(buf, uint32(x))` (the conversion truncates to 32 bits) -/
def intToBytes (x : Nat) : Bytes := w32bytes (BitVec.ofNat 32 x)

/-- `BytesCombine(pBytes...)`: `bytes.Join(s, []byte(""))` -/
def bytesCombine (ps : List Bytes) : Bytes := ps.foldr (· ++ ·) []

/-- `zeroByteSlice()`: 32 zero bytes -/
def zeroByteSlice : Bytes := List.replicate 32 (0 : Byte)

/-- `if n := len(buf); n < 32 { buf = append(zeroByteSlice()[:32-n], buf...) }` (in `ZA` and the `to32` closure) -/
def pad32 (buf : Bytes) : Bytes :=
  if buf.length < 32 then zeroByteSlice.take (32 - buf.length) ++ buf else buf

/-- the `to32` closure of `keyExchange`: `v.Bytes()` left-padded -/
def to32 (v : Nat) : Bytes := pad32 (natBytes v)

/-- body of the `for i, j := 0, (length+31)/32; i < j; i++` loop of `kdf`, `n = j - i` iterations left.
    State: the counter `ct`, the hash object `h`, the output `c`. -/
def kdfLoop (length j : Nat) (x : List Bytes) : Nat → Nat → State → Bytes → Bytes
  | 0, _, _, c => c
  | n+1, ct, _, c =>
    let i := j - (n + 1)
    let h := init                                       -- h.Reset(): the previous state is discarded
    let h := x.foldl write h                            -- for _, xx := range x { h.Write(xx) }
    let h := write h (intToBytes ct)                    -- h.Write(intToBytes(ct))
    let (h, hash) := sum h []                           -- hash := h.Sum(nil)
    let c := if i + 1 = j ∧ length % 32 ≠ 0 then c ++ hash.take (length % 32) else c ++ hash
    kdfLoop length j x n (ct + 1) h c

/-- `for i := 0; i < length; i++ { if c[i] != 0 { return c, true } }; return c, false`
    (`none` = index out of range) -/
def scanNonZero : Nat → Bytes → Option Bool
  | 0, _ => some false
  | _+1, [] => none
  | n+1, b :: t => if b ≠ 0 then some true else scanNonZero n t

/-- `kdf(length, x...)` for `length ≥ 0` (for a negative Go `int` both loops run zero times: `nil, false`,
    like length 0); the counter `ct` is a Go `int` that `intToBytes` cuts to 32 bits; `none` = the final scan would index past `c` (never happens:
    `Props.C13Glue.kdf_eq`). -/
def kdf (length : Nat) (x : List Bytes) : Option (Bytes × Bool) :=
  let j := (length + 31) / 32
  let c := kdfLoop length j x j 1 init []
  (scanNonZero length c).map fun f => (c, f)

/-- `ZA(pub, uid)` with `pub = (x, y)` -/
def za (x y : Nat) (uid : Bytes) : Except String Bytes :=
  let h := init                                         -- za := sm3.New()
  let uidLen := uid.length
  if uidLen ≥ 8192 then .error "SM2: uid too large"
  else
    let entla : BitVec 16 := BitVec.ofNat 16 (8 * uidLen)                -- uint16(8 * uidLen)
    let h := write h [((entla >>> 8) &&& 0xFF).setWidth 8]
    let h := write h [(entla &&& 0xFF).setWidth 8]
    let h := if uidLen > 0 then write h uid else h
    let h := write h (natBytes Gen.SM2.paramA)           -- sm2P256ToBig(&sm2P256.a).Bytes()
    let h := write h (natBytes Gen.SM2.paramB)
    let h := write h (natBytes Gen.SM2.paramGx)
    let h := write h (natBytes Gen.SM2.paramGy)
    let xBuf := pad32 (natBytes x)
    let yBuf := pad32 (natBytes y)
    let h := write h xBuf
    let h := write h yBuf
    .ok ((sum h []).2.take 32)                          -- za.Sum(nil)[:32]

/-- `msgHash(za, msg)`: `new(big.Int).SetBytes(e.Sum(nil)[:32])` -/
def msgHash (z msg : Bytes) : Nat :=
  let e := init
  let e := write e z
  let e := write e msg
  os2ip ((sum e []).2.take 32)

/-- `default_uid` = "1234567812345678" -/
def defaultUid : Bytes := [0x31,0x32,0x33,0x34,0x35,0x36,0x37,0x38,0x31,0x32,0x33,0x34,0x35,0x36,0x37,0x38]

/-- `(pub *PublicKey).Sm3Digest(msg, uid)`: returns `e.Bytes()` (minimal encoding) -/
def sm3Digest (x y : Nat) (msg uid : Bytes) : Except String Bytes :=
  let uid := if uid.length = 0 then defaultUid else uid
  match za x y uid with
  | .error e => .error e
  | .ok z => .ok (natBytes (msgHash z msg))

/-- the part of `keyExchange` after `vx, vy := curve.ScalarMult(vxt, vyt, tb.Bytes())`:
    `own` = `pri.PublicKey`, `peer` = `pub`, `ownEph` = `rpri.PublicKey`, `peerEph` = `rpub`, `v` = (vx, vy). -/
def glue (klen : Nat) (ida idb : Bytes) (thisIsA : Bool) (own peer ownEph peerEph v : Nat × Nat) :
    Except String (Bytes × Bytes × Bytes) :=
  let pza := if thisIsA then own else peer
  match za pza.1 pza.2 ida with
  | .error e => .error e
  | .ok zA =>
    if v.1 = 0 ∧ v.2 = 0 then .error "V is infinite"
    else
      let pzb := if !thisIsA then own else peer
      match za pzb.1 pzb.2 idb with
      | .error e => .error e
      | .ok zB =>
        let vxBuf := to32 v.1
        let vyBuf := to32 v.2
        match kdf klen [vxBuf, vyBuf, zA, zB] with
        | none => .error "panic"
        | some (k, _) =>
          let (ra, rb) := if thisIsA then (ownEph, peerEph) else (peerEph, ownEph)
          let h1 := bytesCombine [vxBuf, zA, zB, to32 ra.1, to32 ra.2, to32 rb.1, to32 rb.2]
          let hash := sm3Sum h1
          let h2 := bytesCombine [[0x02], vyBuf, hash]
          let s1 := sm3Sum h2
          let h3 := bytesCombine [[0x03], vyBuf, hash]
          let s2 := sm3Sum h3
          .ok (k, s1, s2)

end Model.KexGlue
