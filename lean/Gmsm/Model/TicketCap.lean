/-
Model of the size rule of session-ticket issue in gmtls (ticket.go `encryptTicket`, called by the three
`sendSessionTicket`s), as repaired: a ticket seals the serialized session state - which holds the client's
whole certificate chain - and a ticket longer than `maxSessionTicketLen` is not issued: the
NewSessionTicket message then carries the zero-length ticket of RFC 5077, section 3.3, and the client
(`readSessionTicket`) stores no session for it.
Lengths only (natural numbers); the byte-level models are Model.SessionState (the sealed state) and
Model.TLSMessages (the messages that carry a ticket); Props.C16Cap connects them.
Core Lean only; executable.
-/
namespace Model.TicketCap

/-- common.go `maxHandshake`: `readHandshake` refuses a handshake message whose body is longer -/
def maxHandshake : Nat := 65536

/-- ticket.go `maxSessionTicketLen` (the repair) -/
def maxSessionTicketLen : Nat := 16384

/-- length of `sessionState.marshal`: version, suite, master-secret length, certificate count (2 bytes
    each), the master secret, and 4 length bytes + the bytes of every certificate of the client's chain -/
def stateLen (master : Nat) (certs : List Nat) : Nat := 8 + master + (certs.map (4 + ·)).sum

/-- what `encryptTicket` would write: key name (16), IV (16), the encrypted state, HMAC-SHA256 (32) -/
def sealedLen (master : Nat) (certs : List Nat) : Nat := 16 + 16 + stateLen master certs + 32

/-- `encryptTicket` (repaired): does it return a ticket? -/
def issuable (master : Nat) (certs : List Nat) : Bool := decide (sealedLen master certs ≤ maxSessionTicketLen)

/-- length of the ticket in the NewSessionTicket message: 0 is the zero-length ticket ("no ticket") -/
def ticketLen (master : Nat) (certs : List Nat) : Nat :=
  if issuable master certs then sealedLen master certs else 0

/-- `clientHandshakeState(GM).readSessionTicket` (repaired): a session is stored for a non-empty ticket only -/
def clientStores (ticket : Nat) : Bool := ticket != 0

/-- three connections of one client (session cache, same certificate chain every time) to one server with
    an explicit suite list and a policy that asks for a client certificate without verifying it: the
    length of the ticket the client caches after the first one (0: nothing cached), and whether the
    second and the third are resumed (they are full handshakes otherwise - never refused) -/
def threeConnections (master : Nat) (certs : List Nat) : Nat × Bool × Bool :=
  let t := ticketLen master certs
  (t, clientStores t, clientStores t)

end Model.TicketCap
