/-
Model of the curve object of sm2/p256.go at the big-integer level ("layer J"): field elements are
naturals modulo p, points are Jacobian triples, and the control flow of `Add`, `Double`,
`ScalarMult` (width-4 windowed NAF over a precomputed table 1P..7P) and `ScalarBaseMult` (comb over
the two 15-entry affine tables extracted from the source) is the Go code's, with the constant-time
masks written as conditionals.  The 9-limb Montgomery arithmetic below this level is not modelled.
Core Lean only; executable.
-/
import Gmsm.Model.SM2Jac
import Gmsm.Spec.SM2
import Gmsm.Gen.SM2Params
namespace Model.SM2Curve
open Model.SM2Jac

/-- an element of GF(p), always reduced -/
structure Fp where
  v : Nat
deriving DecidableEq, Repr

def P : Nat := Spec.SM2.p
instance : Add Fp := ⟨fun x y => ⟨(x.v + y.v) % P⟩⟩
instance : Sub Fp := ⟨fun x y => ⟨(x.v + P - y.v % P) % P⟩⟩
instance : Mul Fp := ⟨fun x y => ⟨x.v * y.v % P⟩⟩
def Fp.ofNat (n : Nat) : Fp := ⟨n % P⟩
def Fp.neg (x : Fp) : Fp := ⟨(P - x.v % P) % P⟩
def fa : Fp := ⟨Spec.SM2.a⟩
def one : Fp := ⟨1⟩
def zero : Fp := ⟨0⟩

abbrev J := Jac Fp
def inf : J := ⟨zero, zero, zero⟩

/-- `sm2P256ToAffine`: z⁻¹ by `big.Int.ModInverse` (which leaves 0 as it is when there is no inverse) -/
def toAffine (Q : J) : Nat × Nat :=
  let zi : Fp := ⟨Spec.SM2.invMod Q.z.v P⟩
  let zi2 := zi * zi
  ((Q.x * zi2).v, (Q.y * (zi * zi2)).v)

/-- `zForAffine`: z = 1 unless x = y = 0 -/
def fromAffine (x y : Nat) : J := ⟨Fp.ofNat x, Fp.ofNat y, if x = 0 ∧ y = 0 then zero else one⟩

/-- `sm2P256PointAdd` (after the repair): infinity cases, equal inputs ↦ doubling, generic formula -/
def pointAdd (A B : J) : J :=
  if A.z.v = 0 then B
  else if B.z.v = 0 then A
  else
    let u1 := A.x * (B.z * B.z)
    let u2 := B.x * (A.z * A.z)
    let s1 := A.y * (B.z * B.z * B.z)
    let s2 := B.y * (A.z * A.z * A.z)
    if u1 = u2 ∧ s1 = s2 then double fa A else addGeneric A B

/-- `sm2P256PointSub`: negate the second point, then add -/
def pointSub (A B : J) : J := pointAdd A ⟨B.x, B.y.neg, B.z⟩

def apiAdd (x1 y1 x2 y2 : Nat) : Nat × Nat := toAffine (pointAdd (fromAffine x1 y1) (fromAffine x2 y2))
def apiDouble (x y : Nat) : Nat × Nat := toAffine (double fa (fromAffine x y))

/-- `IsOnCurve` -/
def isOnCurve (x y : Nat) : Bool :=
  let X := Fp.ofNat x; let Y := Fp.ofNat y
  -- as repaired: coordinates outside [0, p) are refused, not reduced
  decide (x < Spec.SM2.p) && decide (y < Spec.SM2.p) && (X * X * X + fa * X + ⟨Spec.SM2.b⟩) == Y * Y

-- windowed NAF ---------------------------------------------------------------------------------------

/-- `sm2GenrateWNaf` on the value k (already reduced mod n): digits, least significant first.
    State of the Go loop: remaining value `k` (shifted), `carry`, current output position. -/
def bitLen (k : Nat) : Nat := if k = 0 then 0 else k.log2 + 1

def wnafLoop : Nat → Nat → Bool → Nat → Nat → List (Nat × Int) → Option (List (Nat × Int))
  | 0, _, _, _, _, _ => none                                  -- out of fuel (never happens, see C03Alg)
  | fuel+1, k, carry, pos, length, acc =>
    -- `for pos <= k.BitLen()`
    if pos > bitLen k then some acc
    -- `if k.Bit(pos) == boolToUint(carry) { pos++; continue }`
    else if (k / 2 ^ pos % 2 == 1) == carry then wnafLoop fuel k carry (pos + 1) length acc
    else
      let k' := k / 2 ^ pos                                   -- k.Rsh(k, pos)
      let digit1 : Int := (k' % 16 : Nat) + (if carry then 1 else 0)   -- k.Int64() & mask (+1 with carry)
      let carry' := (digit1.toNat / 8) % 2 == 1               -- digit & sign != 0
      let digit := if carry' then digit1 - 16 else digit1
      wnafLoop fuel k' carry' 4 (length + pos) ((length + pos, digit) :: acc)

/-- positions and digits of the windowed NAF of `k` -/
def wnafDigits (k : Nat) : List (Nat × Int) := (wnafLoop (2 * bitLen k + 12) k false 0 0 []).getD []

/-- the dense digit array (index = bit position), most significant first, as `WNafReversed` returns it -/
def wnafReversed (k : Nat) : List Int :=
  if k = 0 then [0] else
  let ds := wnafDigits k
  let top := ds.foldl (fun m (p : Nat × Int) => max m p.1) 0
  (List.range (top + 1)).reverse.map fun i => (ds.find? (·.1 == i)).map (·.2) |>.getD 0

/-- `sm2P256ScalarMult`: precompute 1P..7P, then for each digit (most significant first): pending
    doublings for zero digits, one doubling, add or subtract the table entry -/
def scalarMultDigits (x y : Nat) (digits : List Int) : J :=
  let p1 : J := ⟨Fp.ofNat x, Fp.ofNat y, one⟩
  let X := Fp.ofNat x; let Y := Fp.ofNat y
  let p2 := double fa p1
  let p3 := addMixed p2 X Y
  let p4 := double fa p2
  let p5 := addMixed p4 X Y
  let p6 := double fa p3
  let p7 := addMixed p6 X Y
  let table : List J := [inf, p1, p2, p3, p4, p5, p6, p7]
  let step := fun (st : J × Bool × Nat) (d : Int) =>
    let (acc, isInf, zeroes) := st
    if d = 0 then (acc, isInf, zeroes + 1)
    else
      let acc := (List.range zeroes).foldl (fun a _ => double fa a) acc
      let acc := double fa acc
      let e := table.getD d.natAbs inf
      let e' : J := if d > 0 then e else ⟨e.x, e.y.neg, e.z⟩
      let t := pointAdd acc e'
      if isInf then (e', false, 0) else (t, false, 0)
  let (acc, _, zeroes) := digits.foldl step (inf, true, 0)
  (List.range zeroes).foldl (fun a _ => double fa a) acc

/-- `Curve.ScalarMult(x, y, k)` -/
def apiScalarMult (x y : Nat) (k : Nat) : Nat × Nat :=
  toAffine (scalarMultDigits x y (wnafReversed (k % Spec.SM2.n)))

-- comb ---------------------------------------------------------------------------------------------------

def limbsVal (l : List Nat) : Nat :=
  (l.zipIdx.map fun (v, i) => v * 2 ^ (29 * ((i + 1) / 2) + 28 * (i / 2))).sum

/-- entry `idx` (1..15) of table `j`, out of Montgomery form -/
def tableEntry (j idx : Nat) : Fp × Fp :=
  let base := j * 270 + (idx - 1) * 18
  let limb (k : Nat) := (Gen.SM2.precomputed.toList.getD (base + k) 0).toNat
  let x := limbsVal ((List.range 9).map limb)
  let y := limbsVal ((List.range 9).map fun k => limb (9 + k))
  (⟨x * Gen.SM2.paramRInverse % P⟩, ⟨y * Gen.SM2.paramRInverse % P⟩)

def bit (k i : Nat) : Nat := k / 2 ^ i % 2

/-- `sm2P256ScalarBaseMult` on the 256-bit scalar value k -/
def scalarBaseMult (k : Nat) : J :=
  let step := fun (st : J × Bool) (i : Nat) =>
    let (acc, isInf) := st
    let acc := if i ≠ 0 then double fa acc else acc
    [0, 1].foldl (fun (st : J × Bool) (jj : Nat) =>
      let (acc, isInf) := st
      let j := jj * 32
      let idx := bit k (31 - i + j) + 2 * bit k (95 - i + j) + 4 * bit k (159 - i + j) + 8 * bit k (223 - i + j)
      if idx = 0 then (acc, isInf)
      else
        let (px, py) := tableEntry jj idx
        if isInf then (⟨px, py, one⟩, false) else (addMixed acc px py, false)) (acc, isInf)
  ((List.range 32).foldl step (inf, true)).1

/-- `Curve.ScalarBaseMult(k)` -/
def apiScalarBaseMult (k : Nat) : Nat × Nat := toAffine (scalarBaseMult (k % Spec.SM2.n))

end Model.SM2Curve
