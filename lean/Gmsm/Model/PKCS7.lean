/-
Decision model of x509/pkcs7.go: signed-data verification (`Verify`, `verifySignature`,
`getHashForOID`, `getSignatureAlgorithmByHash`, `getCertFromCertsByIssuerAndSerial`) and enveloped-data
recipient handling (`PKCS7Encrypt*`, `selectRecipientForCertificate`, `Decrypt*`).  The cryptographic
primitives (hash, signature check, key wrap, content encryption) and the DER encoder of the attribute
SET are parameters; what is modelled is the logic that decides which bytes they are applied to.
Core Lean only; executable.
-/
import Gmsm.Util.Bytes
namespace Model.PKCS7
open Gmsm

inductive Hash | sha1 | sha256 | sm3
deriving DecidableEq, Repr

inductive SigAlg | sm2WithSM3 | sm2WithSHA256 | sha1WithRSA | sha256WithRSA
deriving DecidableEq, Repr

/-- digest-algorithm OIDs as `getHashForOID` tells them apart (after the repair: both SM3 arcs) -/
inductive DigestOID | sha1 | sha256 | sm3 | sm3Arc | other
deriving DecidableEq, Repr

def getHashForOID : DigestOID → Option Hash
  | .sha1 => some .sha1 | .sha256 => some .sha256 | .sm3 => some .sm3 | .sm3Arc => some .sm3 | .other => none

/-- digest-encryption OIDs as `getSignatureAlgorithmByHash` tells them apart -/
inductive EncOID | sm3WithSM2 | dsaSM2 | sha1WithRSA | sha256WithRSA | rsaEncryption | other
deriving DecidableEq, Repr

/-- (after the repair: `oidDSASM2` = 1.2.156.10197.1.301.1, the signature algorithm GM/T 0010 pairs with the SM3
    digest, is accepted under SM3; before, it was known only under SHA-256) -/
def getSignatureAlgorithmByHash : Hash → EncOID → Option SigAlg
  | .sm3, .sm3WithSM2 => some .sm2WithSM3
  | .sm3, .dsaSM2 => some .sm2WithSM3
  | .sha256, .dsaSM2 => some .sm2WithSHA256
  | .sha256, .sha256WithRSA => some .sha256WithRSA
  | .sha256, .rsaEncryption => some .sha256WithRSA
  | .sha1, .sha1WithRSA => some .sha1WithRSA
  | .sha1, .rsaEncryption => some .sha1WithRSA
  | _, _ => none

structure IAS where
  issuer : Bytes
  serial : Int
deriving DecidableEq, Repr

structure Cert where
  ias : IAS
  key : Nat          -- identifies the certified public key
deriving DecidableEq, Repr

structure Attr where
  isMessageDigest : Bool
  value : Bytes
deriving DecidableEq, Repr

structure Signer where
  ias : IAS
  digestAlg : DigestOID
  attrs : List Attr
  encAlg : EncOID
  sig : Bytes
deriving Repr

/-- the primitives `verifySignature` calls -/
structure Prims where
  hash : Hash → Bytes → Bytes
  derAttrs : List Attr → Bytes                       -- `marshalAttributes`
  check : Nat → SigAlg → Bytes → Bytes → Bool       -- `cert.CheckSignature(algo, signed, sig)` for key id

inductive VErr | noSigners | unsupportedHash | noDigestAttr | digestMismatch | noCert | unsupportedAlg | badSignature
deriving DecidableEq, Repr

/-- `unmarshalAttribute(attrs, oidAttributeMessageDigest, &digest)`: first attribute of that type -/
def messageDigestOf (attrs : List Attr) : Option Bytes := (attrs.find? (·.isMessageDigest)).map (·.value)

/-- `getCertFromCertsByIssuerAndSerial`: first certificate with that issuer and serial -/
def findCert (certs : List Cert) (ias : IAS) : Option Cert := certs.find? (fun c => c.ias = ias)

/-- `verifySignature(p7, signer)` -/
def verifySigner (P : Prims) (content : Bytes) (certs : List Cert) (s : Signer) : Except VErr Unit :=
  match getHashForOID s.digestAlg with
  | none => .error .unsupportedHash
  | some h =>
    let signedE : Except VErr Bytes :=
      if s.attrs.length > 0 then
        match messageDigestOf s.attrs with
        | none => .error .noDigestAttr
        | some d => if d = P.hash h content then .ok (P.derAttrs s.attrs) else .error .digestMismatch
      else .ok content
    match signedE with
    | .error e => .error e
    | .ok signed =>
      match findCert certs s.ias with
      | none => .error .noCert
      | some c =>
        match getSignatureAlgorithmByHash h s.encAlg with
        | none => .error .unsupportedAlg
        | some a => if P.check c.key a signed s.sig then .ok () else .error .badSignature

/-- `(*PKCS7).Verify` -/
def verifyAll (P : Prims) (content : Bytes) (certs : List Cert) : List Signer → Except VErr Unit
  | [] => .ok ()
  | s :: ss => match verifySigner P content certs s with
    | .error e => .error e
    | .ok _ => verifyAll P content certs ss

def verify (P : Prims) (content : Bytes) (certs : List Cert) (signers : List Signer) : Except VErr Unit :=
  if signers.length = 0 then .error .noSigners
  else verifyAll P content certs signers

-- enveloped data ---------------------------------------------------------------------------------------------

structure Recip where
  ias : IAS
  encKey : Bytes           -- `EncryptedKey`; empty ⇔ Go's nil test after `selectRecipientForCertificate`
deriving Repr

structure Envelope where
  recips : List Recip
  body : Bytes

/-- the primitives of the envelope -/
structure EPrims where
  wrap : Nat → Bytes → Bytes                -- encrypt the content key to public key `id`
  unwrap : Nat → Bytes → Option Bytes       -- with the private key of `id`
  enc : Bytes → Bytes → Bytes               -- content encryption under the content key
  dec : Bytes → Bytes → Option Bytes

/-- `PKCS7Encrypt` / `PKCS7EncryptSM2`: one content key, wrapped once per recipient certificate -/
def encrypt (E : EPrims) (cek content : Bytes) (recipients : List Cert) : Envelope :=
  ⟨recipients.map (fun c => ⟨c.ias, E.wrap c.key cek⟩), E.enc cek content⟩

/-- `selectRecipientForCertificate` -/
def selectRecipient (rs : List Recip) (cert : Cert) : Option Recip := rs.find? (fun r => r.ias = cert.ias)

inductive DErr | noRecipient | unwrapFailed | contentFailed
deriving DecidableEq, Repr

/-- `Decrypt` / `DecryptSM2` with certificate `cert` and the private key of key id `sk` -/
def decrypt (E : EPrims) (env : Envelope) (cert : Cert) (sk : Nat) : Except DErr Bytes :=
  match selectRecipient env.recips cert with
  | none => .error .noRecipient
  | some r =>
    if r.encKey.isEmpty then .error .noRecipient
    else match E.unwrap sk r.encKey with
      | none => .error .unwrapFailed
      | some k => match E.dec k env.body with
        | none => .error .contentFailed
        | some m => .ok m

end Model.PKCS7
