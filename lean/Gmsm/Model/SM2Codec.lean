/-
Byte-level models of the SM2 serialisation helpers of /repo/sm2 (as repaired):

 * `keXHat`            — sm2.go `keXHat` (x̄ = 2^127 + (x & (2^127 − 1)) computed on `x.Bytes()`);
 * `compress`/`decompress` — utils.go `Compress` / `Decompress` (`big.Int.ModSqrt` for p ≡ 3 mod 4);
 * `cipherMarshal`/`cipherUnmarshal` — sm2.go `CipherMarshal` / `CipherUnmarshal`, i.e. what
   `encoding/asn1` `Marshal` / `Unmarshal` do for `sm2Cipher{*big.Int, *big.Int, []byte, []byte}`
   (`appendLength`/`lengthLength`, the INTEGER encoder, `parseTagAndLength`, `checkInteger`,
   `parseBigInt`, the struct case of `parseField`).

"Model the code that exists": e.g. `CipherMarshal` does not look at the first byte, `Decompress`
returns Y = p − 0 = p for a (non-existent) point with y = 0 and parity bit 1, `asn1.Unmarshal` ignores
bytes after the SEQUENCE and extra elements inside it, negative INTEGERs lose their sign in `.Bytes()`.
Core Lean only; executable.
-/
import Gmsm.Spec.SM2
namespace Model.SM2Codec
open Gmsm

/-- `append(zeroByteSlice()[:32-n], buf...)` when `n := len(buf) < 32`; longer values are left alone -/
def leftPad32 (buf : Bytes) : Bytes :=
  if buf.length < 32 then List.replicate (32 - buf.length) (0 : Byte) ++ buf else buf

-- keXHat ------------------------------------------------------------------------------------------------

/-- `for i := 0; i < len(buf)-16; i++ { buf[i] = 0 }` (signed `int` arithmetic: nothing happens for
    fewer than 17 bytes) -/
def zeroLeading (buf : Bytes) : Bytes :=
  List.replicate (buf.length - 16) (0 : Byte) ++ buf.drop (buf.length - 16)

/-- `buf[i] = buf[i] & 0x7f` -/
def clearTopBitAt : Nat → Bytes → Bytes
  | _, [] => []
  | 0, c :: t => (c &&& 0x7f) :: t
  | i+1, c :: t => c :: clearTopBitAt i t

/-- the 16 bytes `80 00 … 00` (`_2w`) -/
def twoW : Bytes := 0x80 :: List.replicate 15 (0 : Byte)

/-- `keXHat(x)` on the minimal big-endian bytes `x.Bytes()` of a non-negative x -/
def keXHat (x : Nat) : Nat :=
  let buf := natBytes x
  let buf1 := zeroLeading buf
  let buf2 := if buf.length ≥ 16 then clearTopBitAt (buf.length - 16) buf1 else buf1
  os2ip buf2 + os2ip twoW

-- Compress / Decompress ---------------------------------------------------------------------------------

/-- `Compress`: `byte(Y.Bit(0))` followed by `X.Bytes()` left-padded to 32 bytes -/
def compress (x y : Nat) : Bytes := BitVec.ofNat 8 (y % 2) :: leftPad32 (natBytes x)

/-- `big.Int.ModSqrt(v, p)` for the SM2 prime (p ≡ 3 mod 4, `modSqrt3Mod4Prime`): the Jacobi symbol
    (here: Euler's criterion v^((p−1)/2)) decides 0 ↦ 0 and non-residue ↦ nil, otherwise
    v^((p+1)/4) mod p -/
def modSqrt (v : Nat) : Option Nat :=
  if v % Spec.SM2.p = 0 then some 0
  else if Spec.SM2.powMod v ((Spec.SM2.p - 1) / 2) Spec.SM2.p ≠ 1 then none
  else some (Spec.SM2.powMod v ((Spec.SM2.p + 1) / 4) Spec.SM2.p)

/-- x³ + a·x + b in the field (the `sm2P256Square/Mul/Add` sequence of `Decompress`) -/
def rhs (x : Nat) : Nat :=
  (x * x % Spec.SM2.p * x % Spec.SM2.p + Spec.SM2.a * x % Spec.SM2.p + Spec.SM2.b) % Spec.SM2.p

/-- `Decompress`: `none` = nil -/
def decompress (a : Bytes) : Option (Nat × Nat) :=
  match a with
  | [] => none
  | pre :: xs =>
    if a.length ≠ 33 ∨ pre.toNat > 3 then none
    else
      let x := os2ip xs
      if x ≥ Spec.SM2.p then none
      else
        match modSqrt (rhs x) with
        | none => none
        | some y => some (x, if y % 2 ≠ pre.toNat % 2 then Spec.SM2.p - y else y)

-- encoding/asn1 Marshal for sm2Cipher ---------------------------------------------------------------------

/-- length octets: short form below 128, otherwise `0x80 | lengthLength(n)` followed by the
    `lengthLength(n)` base-256 digits written by `appendLength` (the minimal big-endian digits) -/
def marshalLength (n : Nat) : Bytes :=
  if n ≥ 128 then BitVec.ofNat 8 (0x80 + (natBytes n).length) :: natBytes n
  else [BitVec.ofNat 8 n]

/-- identifier octet, length octets, contents -/
def marshalTLV (tag : Byte) (content : Bytes) : Bytes := tag :: (marshalLength content.length ++ content)

/-- contents of a non-negative `*big.Int`: `00` for zero, `n.Bytes()` with a `00` in front when the
    top bit of the first byte is set -/
def marshalBigInt (v : Nat) : Bytes :=
  match natBytes v with
  | [] => [0]
  | h :: t => if h.toNat ≥ 128 then 0 :: h :: t else h :: t

/-- `CipherMarshal`: `none` = error ("ciphertext too short") -/
def cipherMarshal (data : Bytes) : Option Bytes :=
  if data.length < 1 + 32 + 32 + 32 then none
  else
    let d := data.drop 1
    let x := os2ip (d.take 32)
    let y := os2ip ((d.drop 32).take 32)
    let hash := (d.drop 64).take 32
    let cipherText := d.drop 96
    some (marshalTLV 0x30 (marshalTLV 0x02 (marshalBigInt x) ++ marshalTLV 0x02 (marshalBigInt y) ++
      marshalTLV 0x04 hash ++ marshalTLV 0x04 cipherText))

-- encoding/asn1 Unmarshal for sm2Cipher -------------------------------------------------------------------

/-- the long-form loop of `parseTagAndLength`: `k` length octets accumulated into `acc`
    (`length too large` when acc ≥ 2^23 before a shift, `superfluous leading zeros` when the value
    is still 0 after an octet, `truncated` when the input ends) -/
def parseLenLoop : Nat → Bytes → Nat → Option (Nat × Bytes)
  | 0, bs, acc => some (acc, bs)
  | _+1, [], _ => none
  | k+1, b :: bs, acc =>
    if acc ≥ 2 ^ 23 then none
    else
      let acc1 := acc * 256 + b.toNat
      if acc1 = 0 then none else parseLenLoop k bs acc1

/-- length octets → (length, rest) -/
def parseLength (bs : Bytes) : Option (Nat × Bytes) :=
  match bs with
  | [] => none
  | b :: rest =>
    if b.toNat < 128 then some (b.toNat, rest)
    else
      let numBytes := b.toNat - 128
      if numBytes = 0 then none                     -- indefinite length
      else
        match parseLenLoop numBytes rest 0 with
        | none => none
        | some (len, r) => if len < 128 then none else some (len, r)   -- non-minimal length

/-- one element with the expected identifier octet (universal class, the given tag number and
    primitive/constructed bit): (contents, bytes after the element); `none` = "sequence truncated",
    a tag mismatch, a bad length or "data truncated" -/
def parseField (tag : Byte) (bs : Bytes) : Option (Bytes × Bytes) :=
  match bs with
  | [] => none
  | t :: rest =>
    match parseLength rest with
    | none => none
    | some (len, r) =>
      if t ≠ tag then none
      else if r.length < len then none
      else some (r.take len, r.drop len)

/-- `checkInteger` + `parseBigInt` -/
def parseBigInt (c : Bytes) : Option Int :=
  match c with
  | [] => none                                                       -- empty integer
  | [x] => some (if x.toNat ≥ 128 then -((os2ip [~~~x] : Nat) + 1 : Int) else (x.toNat : Int))
  | x :: y :: rest =>
    if (x.toNat = 0 ∧ y.toNat < 128) ∨ (x.toNat = 255 ∧ y.toNat ≥ 128) then none   -- not minimally encoded
    else if x.toNat ≥ 128 then some (-((os2ip ((x :: y :: rest).map (~~~ ·)) : Nat) + 1 : Int))
    else some ((os2ip (x :: y :: rest) : Nat) : Int)

/-- `CipherUnmarshal`: `none` = error.  Bytes after the SEQUENCE and after its fourth element are
    ignored (as `asn1.Unmarshal` does); `.Bytes()` is the magnitude (negative and over-long coordinates are refused). -/
def cipherUnmarshal (data : Bytes) : Option Bytes :=
  match parseField 0x30 data with
  | none => none
  | some (body, _) =>
    match parseField 0x02 body with
    | none => none
    | some (xc, r1) =>
      match parseBigInt xc with
      | none => none
      | some x =>
        match parseField 0x02 r1 with
        | none => none
        | some (yc, r2) =>
          match parseBigInt yc with
          | none => none
          | some y =>
            match parseField 0x04 r2 with
            | none => none
            | some (hash, r3) =>
              match parseField 0x04 r3 with
              | none => none
              | some (cipherText, _) =>
                -- as repaired: C1 is given as two field elements (no negative, no over-long INTEGER) and C3 has the
                -- size of an SM3 digest; anything else would be re-split into another C1 | C3 | C2
                if x < 0 ∨ y < 0 ∨ (natBytes x.natAbs).length > 32 ∨ (natBytes y.natAbs).length > 32 ∨ hash.length ≠ 32 then none
                else some (0x04 :: (leftPad32 (natBytes x.natAbs) ++ leftPad32 (natBytes y.natAbs) ++ hash ++ cipherText))

end Model.SM2Codec
