/-
Model of the PKCS#12 key derivation and integrity check that tjfoc/gmsm carries itself:

 * pkcs12/pbkdf.go   `fillWithRepeats`, `pbkdf` — step for step AS WRITTEN: byte buffers, `bytes.Repeat`,
                     `math/big` additions (`SetBytes`/`Add`/`Bytes` modelled on `Nat` with `os2ip` /
                     `natBytes`, the minimal big-endian encoding that `big.Int.Bytes` returns), the explicit
                     truncation / left-padding of `Ijb`, the `A := make([]byte, c*20)` output buffer with its
                     hard-coded 20, `copy`, and the final slice `A[:size]`.
 * pkcs12/mac.go     `verifyMac`, `computeMac` over an abstract hash `H` (SHA-1 in the code) and an abstract
                     `hmac : key → message → tag` (`crypto/hmac` with `sha1.New` in the code).
 * pkcs12/pkcs12.go  `getSafeContents`: the decision logic around the MAC (which passwords are tried, which
                     error is returned, that nothing behind the MAC runs when it fails).  Everything that
                     `encoding/asn1` does is an input (`Pfx`), everything behind the MAC (lines 372–411:
                     unmarshal the authenticated safe, `pbDecrypt`, collect the bags) is a parameter `rest`.

Go slices are `Gmsm.Bytes`; `nil` and the empty slice are both `[]` (the code never distinguishes them:
only `len`, `append`, `copy`, slicing).  A result `none` / `Err.panic` means: the Go code does not return
(run-time panic: integer divide by zero, slice bounds out of range; or the endless `for len(B) < v` loop
when the hash returns an empty slice).  Core Lean only; executable.
-/
import Gmsm.Util.Bytes
import Gmsm.Model.BER
namespace Model.PKCS12
open Gmsm

/-! ## pbkdf.go -/

/-- `bytes.Repeat(b, n)` -/
def repeatBytes (b : Bytes) : Nat → Bytes
  | 0 => []
  | n+1 => b ++ repeatBytes b n

/-- `copy(dst, src)`: the first `min(len dst, len src)` bytes of `dst` are replaced -/
def goCopy (dst src : Bytes) : Bytes := src.take dst.length ++ dst.drop src.length

/-- pbkdf.go:25-31
    ```
    if len(pattern) == 0 { return nil }
    outputLen := v * ((len(pattern) + v - 1) / v)
    return bytes.Repeat(pattern, (outputLen+len(pattern)-1)/len(pattern))[:outputLen]
    ```
    (for `v ≥ 1`; with `v = 0` and a non-empty pattern Go panics dividing by zero — `pbkdf` below says so) -/
def fillWithRepeats (pattern : Bytes) (v : Nat) : Bytes :=
  if pattern.length = 0 then []
  else
    let outputLen := v * ((pattern.length + v - 1) / v)
    (repeatBytes pattern ((outputLen + pattern.length - 1) / pattern.length)).take outputLen

/-- `n` further applications of the hash: the body of `for j := 1; j < r; j++ { Ai = hash(Ai) }` -/
def applyN (H : Bytes → Bytes) : Nat → Bytes → Bytes
  | 0, a => a
  | n+1, a => applyN H n (H a)

/-- pbkdf.go:110-113 `Ai := hash(x); for j := 1; j < r; j++ { Ai = hash(Ai) }`.
    The loop runs `r - 1` times for `r ≥ 1` and not at all for `r ≤ 1`: `r = 0` (and a negative Go `int`)
    hashes once, like `r = 1`. -/
def hashIter (H : Bytes → Bytes) (r : Nat) (x : Bytes) : Bytes := applyN H (r - 1) (H x)

/-- pbkdf.go:120-122 `for len(B) < v { B = append(B, Ai[:]...) }`, at most `fuel` rounds -/
def fillBLoop (Ai : Bytes) (v : Nat) : Nat → Bytes → Bytes
  | 0, B => B
  | fuel+1, B => if B.length < v then fillBLoop Ai v fuel (B ++ Ai) else B

/-- pbkdf.go:119-123 `var B []byte; for len(B) < v { B = append(B, Ai[:]...) }; B = B[:v]`.
    With a non-empty `Ai` the loop ends after at most `v` rounds; with an empty `Ai` and `v > 0` it never
    ends (`none`). -/
def fillB (Ai : Bytes) (v : Nat) : Option Bytes :=
  if Ai.length = 0 ∧ 0 < v then none else some ((fillBLoop Ai v v []).take v)

/-- pbkdf.go:133-153, one block:
    ```
    Ij.SetBytes(I[j*v : (j+1)*v]); Ij.Add(Ij, Bbi); Ij.Add(Ij, one)
    Ijb := Ij.Bytes()
    if len(Ijb) > v { Ijb = Ijb[len(Ijb)-v:] }
    if len(Ijb) < v { … IjBuf[0:bytesShort] = 0; copy(IjBuf[bytesShort:], Ijb); Ijb = IjBuf }
    ```
    `Ij.Bytes()` is the minimal big-endian encoding (no leading zero byte, empty for 0). -/
def updateBlock (v Bbi : Nat) (blk : Bytes) : Bytes :=
  let Ij := os2ip blk + Bbi + 1
  let Ijb := natBytes Ij
  let Ijb := if Ijb.length > v then Ijb.drop (Ijb.length - v) else Ijb
  let Ijb := if Ijb.length < v then List.replicate (v - Ijb.length) 0 ++ Ijb else Ijb
  Ijb

/-- pbkdf.go:132-155 `for j := 0; j < len(I)/v; j++ { …; copy(I[j*v:(j+1)*v], Ijb) }`
    (`n` = rounds still to run, `j` = the loop variable, `I` updated in place) -/
def updateILoop (v Bbi : Nat) : Nat → Nat → Bytes → Bytes
  | 0, _, I => I
  | n+1, j, I =>
    let blk := (I.drop (j * v)).take v
    let Ijb := updateBlock v Bbi blk
    updateILoop v Bbi n (j + 1) (I.take (j * v) ++ goCopy blk Ijb ++ I.drop ((j + 1) * v))

/-- pbkdf.go:128-156 `Bbi := new(big.Int).SetBytes(B); for j … ` -/
def updateI (v : Nat) (B I : Bytes) : Bytes := updateILoop v (os2ip B) (I.length / v) 0 I

/-- `copy(A[off:], src)` for `off ≤ len(A)` -/
def copyInto (A : Bytes) (off : Nat) (src : Bytes) : Bytes := A.take off ++ goCopy (A.drop off) src

/-- pbkdf.go:107-158 `for i := 0; i < c; i++ { … }` (`n` = rounds still to run, `i` = the loop variable).
    Note the literal `20` in `copy(A[i*20:], Ai[:])`: it is not `u`. -/
def pbkdfLoop (H : Bytes → Bytes) (r v c : Nat) (D : Bytes) : Nat → Nat → Bytes → Bytes → Option Bytes
  | 0, _, _, A => some A
  | n+1, i, I, A =>
    let Ai := hashIter H r (D ++ I)
    let A := copyInto A (i * 20) Ai
    if i < c - 1 then
      match fillB Ai v with
      | none => none
      | some B => pbkdfLoop H r v c D n (i + 1) (updateI v B I) A
    else pbkdfLoop H r v c D n (i + 1) I A

/-- pbkdf.go:33-170 `pbkdf(hash, u, v, salt, password, r, ID, size)`.
    `none` = the Go function does not return:
    * `u = 0`: `(size + u - 1) / u` divides by zero;
    * `v = 0`: `fillWithRepeats` divides by zero for a non-empty salt or password, and `len(I)/v` does when
      the I-update is reached (`c ≥ 2`);
    * the hash returns an empty slice and the B loop is reached (`fillB`);
    * `A[:size]` with `size > c*20` (possible only when `u > 20`): slice bounds out of range.
    None of this happens for the only instantiation in the library, `pbkdf(sha1Sum, 20, 64, …)`. -/
def pbkdf (H : Bytes → Bytes) (u v : Nat) (salt password : Bytes) (r : Nat) (ID : Byte) (size : Nat) : Option Bytes :=
  if u = 0 then none
  else
    let c := (size + u - 1) / u
    if v = 0 ∧ (salt.length ≠ 0 ∨ password.length ≠ 0 ∨ 2 ≤ c) then none
    else
      let D := List.replicate v ID
      let S := fillWithRepeats salt v
      let P := fillWithRepeats password v
      let I := S ++ P
      let A := List.replicate (c * 20) (0 : Byte)
      match pbkdfLoop H r v c D c 0 I A with
      | none => none
      | some A => if size ≤ A.length then some (A.take size) else none

/-- `r` as a Go `int` (the PFX field `Iterations` is decoded from the file and may be 0 or negative):
    `for j := 1; j < r; j++` does not run for `r ≤ 1` -/
def pbkdfInt (H : Bytes → Bytes) (u v : Nat) (salt password : Bytes) (r : Int) (ID : Byte) (size : Nat) : Option Bytes :=
  pbkdf H u v salt password r.toNat ID size

/-! ## crypto.go: the key and IV derivations of the two PBE schemes -/

/-- `shaWithTripleDESCBC.deriveKey` / `deriveIV`, `shaWith40BitRC2CBC.deriveKey` / `deriveIV` (crypto.go:37-57) -/
def deriveKey3DES (H : Bytes → Bytes) (salt password : Bytes) (iterations : Int) := pbkdfInt H 20 64 salt password iterations 1 24
def deriveIV3DES (H : Bytes → Bytes) (salt password : Bytes) (iterations : Int) := pbkdfInt H 20 64 salt password iterations 2 8
def deriveKeyRC2 (H : Bytes → Bytes) (salt password : Bytes) (iterations : Int) := pbkdfInt H 20 64 salt password iterations 1 5
def deriveIVRC2 (H : Bytes → Bytes) (salt password : Bytes) (iterations : Int) := pbkdfInt H 20 64 salt password iterations 2 8

/-! ## mac.go -/

inductive Err
  | parse              -- an `unmarshal` error / trailing data
  | notImplemented     -- `NotImplementedError`
  | noMac              -- "go-pkcs12: no MAC in data"
  | incorrectPassword  -- `ErrIncorrectPassword`
  | panic              -- the code does not return (see `pbkdf`)
  | behind (code : Nat) -- an error of the code behind the MAC check (`rest`)
deriving DecidableEq, Repr

/-- `type macData struct { Mac digestInfo; MacSalt []byte; Iterations int }` as far as the code reads it -/
structure MacData where
  algIsSHA1 : Bool     -- `macData.Mac.Algorithm.Algorithm.Equal(oidSHA1)`
  digest : Bytes       -- `macData.Mac.Digest`
  salt : Bytes         -- `macData.MacSalt`
  iterations : Int     -- `macData.Iterations` (`asn1:"optional,default:1"`)
deriving DecidableEq, Repr

/-- mac.go:35/52 `key := pbkdf(sha1Sum, 20, 64, macData.MacSalt, password, macData.Iterations, 3, 20)` -/
def macKey (H : Bytes → Bytes) (m : MacData) (password : Bytes) : Option Bytes :=
  pbkdfInt H 20 64 m.salt password m.iterations 3 20

/-- mac.go:30-45 `verifyMac`: `hmac.Equal` is equality of byte strings (constant-time; unequal lengths
    compare unequal) -/
def verifyMac (H : Bytes → Bytes) (hmac : Bytes → Bytes → Bytes) (m : MacData) (message password : Bytes) : Except Err Unit :=
  if !m.algIsSHA1 then .error .notImplemented
  else
    match macKey H m password with
    | none => .error .panic
    | some key =>
      let expectedMAC := hmac key message
      if m.digest = expectedMAC then .ok () else .error .incorrectPassword

/-- mac.go:47-59 `computeMac`: stores the tag in `macData.Mac.Digest` -/
def computeMac (H : Bytes → Bytes) (hmac : Bytes → Bytes → Bytes) (m : MacData) (message password : Bytes) : Except Err MacData :=
  if !m.algIsSHA1 then .error .notImplemented
  else
    match macKey H m password with
    | none => .error .panic
    | some key => .ok { m with digest := hmac key message }

/-! ## pkcs12.go `getSafeContents` -/

/-- what `unmarshal(p12Data, pfx)` and `unmarshal(pfx.AuthSafe.Content.Bytes, &pfx.AuthSafe.Content)` produced -/
structure Pfx where
  version : Int                 -- `pfx.Version`
  authSafeIsData : Bool         -- `pfx.AuthSafe.ContentType.Equal(oidDataContentType)`
  content : Option Bytes        -- `pfx.AuthSafe.Content.Bytes` after the inner unmarshal (`none`: it failed);
                                --   these are the bytes the MAC covers
  macAlgLen : Nat               -- `len(pfx.MacData.Mac.Algorithm.Algorithm)`
  macData : MacData
deriving DecidableEq, Repr

/-- pkcs12.go:336-412.  `rest content password` stands for lines 372-411 (everything that parses, decrypts
    and returns safe bags); `β` is the type of what it returns (`[]safeBag`).
    ```
    if err := verifyMac(&pfx.MacData, pfx.AuthSafe.Content.Bytes, password); err != nil {
        if err == ErrIncorrectPassword && len(password) == 2 && password[0] == 0 && password[1] == 0 {
            password = nil
            err = verifyMac(&pfx.MacData, pfx.AuthSafe.Content.Bytes, password)
        }
        if err != nil { return nil, nil, err }
    }
    …
    return bags, password, nil
    ```
    The result is the pair (bags, updatedPassword) or the error; on an error Go returns `nil, nil, err`. -/
def getSafeContents {β : Type} (H : Bytes → Bytes) (hmac : Bytes → Bytes → Bytes)
    (rest : Bytes → Bytes → Except Err β) (p : Option Pfx) (password : Bytes) : Except Err (β × Bytes) :=
  match p with
  | none => .error .parse
  | some pfx =>
    if pfx.version ≠ 3 then .error .notImplemented
    else if !pfx.authSafeIsData then .error .notImplemented
    else match pfx.content with
      | none => .error .parse
      | some content =>
        if pfx.macAlgLen = 0 then .error .noMac
        else
          let continue_ (password : Bytes) : Except Err (β × Bytes) :=
            match rest content password with
            | .ok bags => .ok (bags, password)
            | .error e => .error e
          match verifyMac H hmac pfx.macData content password with
          | .ok () => continue_ password
          | .error err =>
            if err = .incorrectPassword ∧ password = [0, 0] then
              match verifyMac H hmac pfx.macData content [] with
              | .ok () => continue_ []
              | .error err => .error err
            else .error err

/-- pkcs12.go:217-226 / 278-287 (`DecodeAll`, `Decode`): the password string is BMP-encoded first
    (`runes` = the code points of the Go string; a string with a character outside the BMP is an error,
    reported here as `parse`), then `getSafeContents` runs with the encoded password. -/
def decodeGate {β : Type} (H : Bytes → Bytes) (hmac : Bytes → Bytes → Bytes)
    (rest : Bytes → Bytes → Except Err β) (p : Option Pfx) (runes : List Nat) : Except Err (β × Bytes) :=
  match Model.BER.bmpString runes with
  | none => .error .parse
  | some encodedPassword => getSafeContents H hmac rest p encodedPassword

end Model.PKCS12
