/-
Private keys inside a PKCS#12 bundle: pkcs12/pkcs8.go (`marshalPKCS8PrivateKey` used by `Encode`,
`ParsePKCS8PrivateKey` / `parseECPrivateKey` used by `Decode`, `DecodeAll` and `ToPEM` through
`decodePkcs8ShroudedKeyBag`) and the key conversion of `convertBag` (pkcs12/pkcs12.go).

Modelled: which key types / curves each side knows and what it does with the scalar of an EC key.
Not modelled (trusted): the DER codec of encoding/asn1, the PKCS#1 codec of crypto/x509 for a valid RSA
key (`ParsePKCS1PrivateKey (MarshalPKCS1PrivateKey k) = k`), the password-based encryption of the bag
(Model.PKCS12 has the key derivation and the MAC).

`parse` is the code AFTER the repair: the case `oidPublicKeyRSA` was missing, so every bundle that
`Encode` produced for an RSA key was refused under its own password.
`toPEM` is the code AFTER the repair of `convertBag`: SM2-curve keys are written with the package's own
SEC 1 encoder.

Core Lean only.
-/
import Gmsm.Util.Bytes
import Gmsm.Util.I2osp
namespace Gmsm.Model.PKCS8
open Gmsm

inductive Curve | p224 | p256 | p384 | p521 | sm2
deriving Repr, DecidableEq

/-- a named-curve OID as the decoder sees it: one of the five of `namedCurveFromOID`, or anything else
    (also: the field is absent) -/
inductive CurveOID | known (c : Curve) | unknown
deriving Repr, DecidableEq

/-- byte length of a scalar, `(N.BitLen()+7)/8` -/
def Curve.size : Curve → Nat
  | .p224 => 28 | .p256 => 32 | .p384 => 48 | .p521 => 66 | .sm2 => 32

/-- an RSA private key (opaque here: only the standard library's PKCS#1 codec touches it) -/
structure RsaKey where
  n : Nat
  e : Nat
  d : Nat
deriving Repr, DecidableEq

/-- what the caller hands to `Encode` -/
inductive Key
  | rsa (k : RsaKey)             -- *rsa.PrivateKey
  | ecdsa (c : Curve) (d : Nat)  -- *ecdsa.PrivateKey
  | sm2 (c : Curve) (d : Nat)    -- *sm2.PrivateKey (its Curve field is normally sm2.P256Sm2())
  | other                        -- any other type
deriving Repr, DecidableEq

/-- what the decoders return: `*rsa.PrivateKey` or `*ecdsa.PrivateKey` (SM2 keys come back in the
    latter type, on the SM2 curve) -/
inductive PKey
  | rsa (k : RsaKey)
  | ecdsa (c : Curve) (d : Nat)
deriving Repr, DecidableEq

inductive AlgOID | rsaEncryption | ecPublicKey | other
deriving Repr, DecidableEq

/-- the contents of the `privateKey` OCTET STRING -/
inductive Inner
  | pkcs1 (k : RsaKey)                                    -- RSAPrivateKey (PKCS#1) of a valid key
  | sec1 (version : Nat) (priv : Bytes) (curve : CurveOID) -- ECPrivateKey: version, privateKey, [0] namedCurve
  | junk                                                  -- anything else
deriving Repr, DecidableEq

/-- PrivateKeyInfo: algorithm OID, its parameters read as a named-curve OID (`none`: the parameters
    are not an OBJECT IDENTIFIER, e.g. the NULL of RSA), the inner key -/
structure P8 where
  algo : AlgOID
  param : Option CurveOID
  inner : Inner
deriving Repr, DecidableEq

inductive Err
  | unknownAlgorithm | badRSA | badEC | ecVersion | unknownCurve | scalarRange | scalarLength
deriving Repr, DecidableEq

/-- curve orders -/
structure Params where
  order : Curve → Nat

/-- `(N.BitLen()+7)/8` is `Curve.size`: the orders fit their byte length -/
def Params.Sane (P : Params) : Prop := ∀ c, P.order c ≤ 256 ^ c.size

/-- the group orders of the five curves (FIPS 186-4 D.1.2, GB/T 32918.5) -/
def stdParams : Params := ⟨fun
  | .p224 => 0xffffffffffffffffffffffffffff16a2e0b8f03e13dd29455c5c2a3d
  | .p256 => 0xffffffff00000000ffffffffffffffffbce6faada7179e84f3b9cac2fc632551
  | .p384 => 0xffffffffffffffffffffffffffffffffffffffffffffffffc7634d81f4372ddf581a0db248b0a77aecec196accc52973
  | .p521 => 0x1fffffffffffffffffffffffffffffffffffffffffffffffffffffffffffffffffa51868783bf2f966b7fcc0148f709a5d03bb5c9b8899c47aebb6fb71e91386409
  | .sm2 => 0xfffffffeffffffffffffffffffffffff7203df6b21c6052b53bbf40939d54123⟩

/-- `marshalPKCS8PrivateKey`: `none` = Encode's error return.  An `*ecdsa.PrivateKey` goes through the
    standard library's `x509.MarshalECPrivateKey`, which does not know the SM2 curve; an `*sm2.PrivateKey`
    goes through the package's own `MarshalECPrivateKey`. Both write the scalar left-padded to the size
    of the curve (for `d < 256^size`; larger values make them panic and are outside this model, and so
    are keys whose public point is not `d·G`: scalars that are 0 modulo the order have none). -/
def marshal : Key → Option P8
  | .rsa k => some ⟨.rsaEncryption, none, .pkcs1 k⟩
  | .ecdsa c d =>
    if c = .sm2 then none
    else some ⟨.ecPublicKey, some (.known c), .sec1 1 (i2ospR c.size d) (.known c)⟩
  | .sm2 c d => some ⟨.ecPublicKey, some (.known c), .sec1 1 (i2ospR c.size d) (.known c)⟩
  | .other => none

/-- the loop of `parseECPrivateKey` that drops leading zero bytes of an over-long scalar -/
def stripLeading : Bytes → Nat → Option Bytes
  | [], _ => some []
  | b :: bs, size =>
    if (b :: bs).length > size then
      if b ≠ 0 then none else stripLeading bs size
    else some (b :: bs)

/-- `parseECPrivateKey(namedCurveOID, der)` -/
def parseEC (P : Params) (param : Option CurveOID) : Inner → Except Err PKey
  | .sec1 version priv embedded =>
    if version ≠ 1 then .error .ecVersion
    else
      match (match param with | some o => o | none => embedded) with
      | .unknown => .error .unknownCurve
      | .known c =>
        let k := os2ip priv
        if k ≥ P.order c then .error .scalarRange
        else match stripLeading priv c.size with
          | none => .error .scalarLength
          | some _ => .ok (.ecdsa c k)
  | _ => .error .badEC

/-- `ParsePKCS8PrivateKey` (as repaired: with the RSA case) -/
def parse (P : Params) (p : P8) : Except Err PKey :=
  match p.algo with
  | .rsaEncryption =>
    (match p.inner with
     | .pkcs1 k => .ok (.rsa k)
     | _ => .error .badRSA)
  | .ecPublicKey => parseEC P p.param p.inner
  | .other => .error .unknownAlgorithm

/-- the key a decoder must give back for `k` -/
def view : Key → Option PKey
  | .rsa k => some (.rsa k)
  | .ecdsa c d => some (.ecdsa c d)
  | .sm2 c d => some (.ecdsa c d)
  | .other => none

/-- a usable key: EC scalars are below the order of their curve -/
def Key.Valid (P : Params) : Key → Prop
  | .ecdsa c d => d < P.order c
  | .sm2 c d => d < P.order c
  | _ => True

/-- `convertBag` (ToPEM), as repaired: an RSA key is written as PKCS#1; an EC key on a NIST curve with the
    standard library's `x509.MarshalECPrivateKey`, an EC key on the SM2 curve (what the decoders return for an
    SM2 bundle) with the package's own `MarshalECPrivateKey` - the standard library does not know that curve.
    Both write SEC 1 with the scalar left-padded to the size of the curve and the named-curve OID.
    (Before the repair the SM2 case also went to the standard library: "x509: unknown elliptic curve",
    `ToPEM` refused every SM2 bundle under its own password.) -/
def toPEM : PKey → Option Inner
  | .rsa k => some (.pkcs1 k)
  | .ecdsa c d => some (.sec1 1 (i2ospR c.size d) (.known c))

end Gmsm.Model.PKCS8
