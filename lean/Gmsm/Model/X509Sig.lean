/-
How `x509.checkSignature` (x509/x509.go, `case *dsa.PublicKey` and `case *ecdsa.PublicKey`, the latter also
serving keys on the SM2 curve) turns the signature VALUE of a certificate, request or revocation list into
the pair (r, s):

    sig := new(ecdsaSignature)                       // struct{ R, S *big.Int }
    rest, err := asn1.Unmarshal(signature, sig)      -- `unmarshalRS`
    if err != nil || len(rest) != 0 { reject }
    if der, err := asn1.Marshal(*sig); err != nil || !bytes.Equal(der, signature) { reject }   -- the repair
    if sig.R.Sign() <= 0 || sig.S.Sign() <= 0 { reject }

`encoding/asn1` reads a struct from a SEQUENCE by parsing one member per field and then IGNORES whatever is
left of the SEQUENCE's contents ("We allow extra bytes at the end of the SEQUENCE because adding elements to
the end has been used in X.509 as the version numbers have increased"): `unmarshalRS` alone accepts
SEQUENCE{r, s, NULL}, SEQUENCE{r, s, OCTET STRING …} and so on.  Lengths must be definite and minimal and the
INTEGER contents minimal (encoding/asn1 enforces both), exactly as in `Spec.DER`.
Core Lean only; executable.
-/
import Gmsm.Spec.DER
import Gmsm.Spec.SM2
namespace Model.X509Sig
open Gmsm Spec.DER

/-- `asn1.Unmarshal(signature, &struct{R, S *big.Int})`: (R, S, bytes after the SEQUENCE).  The contents of the
    SEQUENCE after the second INTEGER (`_extra`) are not looked at. -/
def unmarshalRS (b : Bytes) : Option (Int × Int × Bytes) :=
  match decTLV 0x30 b with
  | some (body, rest) =>
    match decTLV 0x02 body with
    | some (rc, body1) =>
      match decTLV 0x02 body1 with
      | some (sc, _extra) =>
        match decIntContent rc, decIntContent sc with
        | some r, some s => some (r, s, rest)
        | _, _ => none
      | none => none
    | none => none
  | none => none

/-- the decoding step of `checkSignature` as found (before the repair): only bytes AFTER the SEQUENCE and
    non-positive values are refused -/
def decodeLenient (sig : Bytes) : Option (Nat × Nat) :=
  match unmarshalRS sig with
  | some (r, s, []) => if r ≤ 0 ∨ s ≤ 0 then none else some (r.toNat, s.toNat)
  | _ => none

/-- the decoding step of the repaired `checkSignature`: in addition the pair is re-encoded and must give the
    signature bytes back.  (Go compares before it looks at the signs; a non-positive value is refused either
    way, and `asn1.Marshal` of a positive pair is `Spec.DER.encSig`.) -/
def decode (sig : Bytes) : Option (Nat × Nat) :=
  match unmarshalRS sig with
  | some (r, s, []) =>
    if r ≤ 0 ∨ s ≤ 0 then none
    else if encSig r.toNat s.toNat = sig then some (r.toNat, s.toNat)
    else none
  | _ => none

/-- `checkSignature(algo, signed, signature, pub)` for a key on the SM2 curve: whatever SM2 algorithm is named,
    `sm2.Sm2Verify(pub, signed, nil, r, s)` over the raw signed bytes with the default user ID -/
def verifySM2 (px py : Nat) (signed sig : Bytes) : Bool :=
  match decode sig with
  | some (r, s) => Spec.SM2.verify px py Spec.SM2.defaultUid signed r s
  | none => false

/-- the same with the decoding step as found -/
def verifySM2Lenient (px py : Nat) (signed sig : Bytes) : Bool :=
  match decodeLenient sig with
  | some (r, s) => Spec.SM2.verify px py Spec.SM2.defaultUid signed r s
  | none => false

end Model.X509Sig
