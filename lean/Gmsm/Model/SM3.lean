/-
Model of sm3/sm3.go: the streaming `hash.Hash` object (`digest`, `length`, `unhandleMsg`) with
`Write`, `Sum`, `Reset`, and the one-shot `Sm3Sum`.  The compression of one block is the standard's
round structure (`Spec.SM3.CFgen`) instantiated with Go's rotate idiom `leftRotate`; the Go code's
two round loops (j < 16 with ff0/gg0 and 0x79cc4519, j ≥ 16 with ff1/gg1 and 0x7a879d8a) are the
two arms of `FF/GG/Tj`.  Core Lean only; executable.
-/
import Gmsm.Spec.SM3
namespace Model.SM3
open Gmsm Spec.SM3

/-- `func (sm3 *SM3) leftRotate(x uint32, i uint32) uint32 { return x<<(i%32) | x>>(32-i%32) }` -/
def leftRotate (x : W32) (i : Nat) : W32 := goShl32 x (i % 32) ||| goShr32 x (32 - i % 32)

/-- one iteration of the `for len(msg) >= 64` loop body of `update`/`update2` -/
def update1 (v : Reg) (blk : Bytes) : Reg := CFgen leftRotate v blk

/-- `update`: compress `n = len(msg)/64` whole blocks -/
def updateN : Nat → Reg → Bytes → Reg
  | 0, v, _ => v
  | n+1, v, m => updateN n (update1 v (m.take 64)) (m.drop 64)

structure State where
  digest : Reg
  length : W64     -- bit count, uint64 (wraps)
  tail : Bytes     -- unhandleMsg
deriving DecidableEq

/-- `Reset` / `New` -/
def init : State := ⟨IV, 0, []⟩

/-- `Write(p)` -/
def write (s : State) (p : Bytes) : State :=
  let msg := s.tail ++ p
  let n := msg.length / 64
  ⟨updateN n s.digest msg, s.length + BitVec.ofNat 64 (p.length * 8), msg.drop (n * 64)⟩

/-- `pad()`: `unhandleMsg ‖ 0x80 ‖ 0…0 (until len % 64 = 56) ‖ length (8 bytes BE)` -/
def pad (s : State) : Bytes :=
  s.tail ++ (0x80 :: (List.replicate ((119 - s.tail.length % 64) % 64) 0 ++ w64bytes s.length))

/-- digest of the current state without changing it (`pad` + `update2`) -/
def finish (s : State) : Bytes :=
  let msg := pad s
  regBytes (updateN (msg.length / 64) s.digest msg)

/-- `Sum(in)` as repaired: state untouched, result is `in ‖ digest`. -/
def sum (s : State) (pre : Bytes) : State × Bytes := (s, pre ++ finish s)

/-- `Sum(in)` as the pinned commit had it: writes `in` into the hash first, returns only the digest. -/
def sumOld (s : State) (pre : Bytes) : State × Bytes :=
  let s' := write s pre
  (s', finish s')

/-- `Sm3Sum(data)` -/
def sm3Sum (data : Bytes) : Bytes := (sum (write init data) []).2

/-- operations of a history on one object -/
inductive Op where
  | write (p : Bytes)
  | sum (pre : Bytes)
  | reset

/-- run a history; outputs are the results of the `Sum` calls, in order -/
def run : State → List Op → List Bytes
  | _, [] => []
  | s, .write p :: ops => run (write s p) ops
  | s, .sum pre :: ops => let (s', out) := sum s pre; out :: run s' ops
  | _, .reset :: ops => run init ops

end Model.SM3
