/-
The safe bags of a PKCS#12 bundle and the three readers of pkcs12/pkcs12.go that walk over them:
`Decode` (one key, one certificate, standard-library certificate type), `DecodeAll` (one key, all
certificates, the package's certificate type) and `ToPEM` (one PEM block per bag, `convertBag`).
`Encode(privateKey, certificate, caCerts, password)` writes the end-entity certificate bag first, one
certificate bag per CA certificate after it and the shrouded key bag last; `getSafeContents` hands the
bags to the readers in that order.

Modelled: the bag loops (which bag is kept, which error is returned, in which order).
Not modelled (trusted / modelled elsewhere): the DER codec, the MAC and the password-based encryption
(Model.PKCS12), the key codec of the key bag (Model.PKCS8), the certificate parsers.

`decode` is the code AFTER the repair.  Before it, the branch for a second certificate bag only
ASSIGNED the error "expected exactly one certificate bag" to the result variable `err`, went on, replaced
the certificate by the later one, and the key bag (the last bag) set `err` back to nil: for every bundle
written with CA certificates `Decode` returned the leaf's private key together with the LAST CA
certificate and no error (`decodeOld` in Props/C17Fix.lean).

Core Lean only; executable.
-/
namespace Gmsm.Model.P12Bags

/-- a certificate as the bag loops see it: which one, and whether the standard library's
    `x509.ParseCertificates` reads it (it does not read SM2 certificates; the package's own parser reads
    both kinds) -/
structure Cert where
  id : Nat
  stdReadable : Bool
deriving Repr, DecidableEq

inductive Bag
  | cert (c : Cert)            -- certBag holding one X.509 certificate
  | key (k : Option Nat)       -- pkcs8ShroudedKeyBag; `none`: it does not decrypt / decode with the password
  | other                      -- any other bag type (keyBag, crlBag, secretBag, safeContentsBag ...)
deriving Repr, DecidableEq

inductive Err
  | twoCertBags | twoKeyBags | certParse | keyDecode | certMissing | keyMissing | unknownBag
deriving Repr, DecidableEq

/-- the bags `Encode` writes -/
def encodeBags (key : Nat) (leaf : Cert) (cas : List Cert) : List Bag :=
  .cert leaf :: (cas.map .cert ++ [.key (some key)])

/-- the loop of `Decode` with its two result variables -/
def decodeLoop : List Bag → Option Nat → Option Cert → Except Err (Option Nat × Option Cert)
  | [], k, c => .ok (k, c)
  | .cert c :: rest, k, have_ =>
    match have_ with
    | some _ => .error .twoCertBags                 -- (repaired: the error is returned)
    | none => if c.stdReadable then decodeLoop rest k (some c) else .error .certParse
  | .key k' :: rest, k, c =>
    match k with
    | some _ => .error .twoKeyBags                  -- (repaired: the error is returned)
    | none =>
      match k' with
      | none => .error .keyDecode
      | some v => decodeLoop rest (some v) c
  | .other :: rest, k, c => decodeLoop rest k c     -- the switch has no default: other bags are skipped

/-- `Decode` -/
def decode (bags : List Bag) : Except Err (Nat × Cert) :=
  match decodeLoop bags none none with
  | .error e => .error e
  | .ok (_, none) => .error .certMissing
  | .ok (none, some _) => .error .keyMissing
  | .ok (some k, some c) => .ok (k, c)

/-- the loop of `DecodeAll`: every certificate bag is appended; a later key bag replaces an earlier one
    (here the assignment `err = "expected exactly one key bag"` is still dead code) -/
def decodeAllLoop : List Bag → Option Nat → List Cert → Except Err (Option Nat × List Cert)
  | [], k, cs => .ok (k, cs)
  | .cert c :: rest, k, cs => decodeAllLoop rest k (cs ++ [c])
  | .key k' :: rest, _, cs =>
    match k' with
    | none => .error .keyDecode
    | some v => decodeAllLoop rest (some v) cs
  | .other :: rest, k, cs => decodeAllLoop rest k cs

/-- `DecodeAll` -/
def decodeAll (bags : List Bag) : Except Err (Nat × List Cert) :=
  match decodeAllLoop bags none [] with
  | .error e => .error e
  | .ok (_, []) => .error .certMissing
  | .ok (none, _ :: _) => .error .keyMissing
  | .ok (some k, c :: cs) => .ok (k, c :: cs)

inductive Block
  | certificate (c : Cert)     -- "CERTIFICATE": the bytes of the bag, not parsed
  | privateKey (k : Nat)       -- "PRIVATE KEY": the key, re-encoded (Model.PKCS8.toPEM)
deriving Repr, DecidableEq

/-- `ToPEM`: `convertBag` on every bag, the first error ends it -/
def toPEM : List Bag → Except Err (List Block)
  | [] => .ok []
  | b :: rest =>
    match (match b with
           | .cert c => (.ok (.certificate c) : Except Err Block)
           | .key (some k) => .ok (.privateKey k)
           | .key none => .error .keyDecode
           | .other => .error .unknownBag) with
    | .error e => .error e
    | .ok blk =>
      match toPEM rest with
      | .error e => .error e
      | .ok bs => .ok (blk :: bs)

end Gmsm.Model.P12Bags
