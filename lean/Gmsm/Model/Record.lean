/-
Model of the GMSSL (GM/T 0024, version 0x0101) record layer of gmtls/conn.go for an established
connection: `halfConn.encrypt/decrypt` for the SM4-CBC + HMAC-SM3 and the SM4-GCM suites,
`Conn.Write` (1/n-1 split, dynamic record sizing, explicit IV / nonce), `Conn.readRecord` + `Conn.Read`
(header checks, sticky error, alerts).  Crypto is the real thing (`Spec.SM4`, `Spec.HMAC`,
`Spec.GCM`), so the model predicts wire bytes exactly.  Core Lean only; executable.
-/
import Gmsm.Spec.SM4
import Gmsm.Spec.Modes
import Gmsm.Spec.HMAC
import Gmsm.Spec.GCM
import Gmsm.Util.I2osp
namespace Model.Record
open Gmsm

inductive Suite | cbc | gcm
deriving DecidableEq, Repr

structure Keys where
  mac : Bytes
  key : Bytes
  iv : Bytes          -- CBC: initial IV (unused with explicit IVs); GCM: 4-byte implicit nonce

structure Half where
  suite : Suite
  keys : Keys
  seq : Nat           -- the 64-bit implicit sequence number

def seqBytes (n : Nat) : Bytes := i2ospR 8 n
def be16 (n : Nat) : Bytes := i2ospR 2 n

/-- record header: type, version 0x0101, length -/
def header (typ : Byte) (len : Nat) : Bytes := [typ, 0x01, 0x01] ++ be16 len

/-- `tls10MAC.MAC`: HMAC-SM3(key, seq ‖ header ‖ data) -/
def mac (k : Keys) (seq : Nat) (typ : Byte) (data : Bytes) : Bytes :=
  Spec.HMAC.hmacSM3 k.mac (seqBytes seq ++ header typ data.length ++ data)

/-- `padToBlockSize`: pad to a multiple of 16 with `p` bytes of value `p-1`, `1 ≤ p ≤ 16` -/
def padCBC (b : Bytes) : Bytes :=
  b ++ List.replicate (16 - b.length % 16) (BitVec.ofNat 8 (16 - b.length % 16 - 1))

/-- `extractPadding` as a predicate: (bytes to remove, padding is good) -/
def extractPadding (payload : Bytes) : Nat × Bool :=
  match payload.getLast? with
  | none => (0, false)
  | some last =>
    let p := last.toNat
    (p + 1, p + 1 ≤ payload.length ∧ (payload.drop (payload.length - (p + 1))).all (· == last))

def cbcEncAll (key iv data : Bytes) : Bytes :=
  (Spec.Modes.cbcEnc (Spec.SM4.encrypt key) iv (Spec.Modes.blocks (data.length / 16) data)).flatten
def cbcDecAll (key iv data : Bytes) : Bytes :=
  (Spec.Modes.cbcDec (Spec.SM4.decrypt key) iv (Spec.Modes.blocks (data.length / 16) data)).flatten

/-- additional data of the AEAD suites: seq ‖ type ‖ version ‖ plaintext length -/
def aad (seq : Nat) (typ : Byte) (len : Nat) : Bytes := seqBytes seq ++ header typ len

/-- `halfConn.encrypt` of one record: explicit IV (16 bytes, CBC) / explicit nonce (8 bytes, GCM) -/
def Half.encrypt (h : Half) (typ : Byte) (explicit payload : Bytes) : Bytes × Half :=
  match h.suite with
  | .cbc =>
    let body := padCBC (payload ++ mac h.keys h.seq typ payload)
    let ct := cbcEncAll h.keys.key explicit body
    (header typ (explicit.length + ct.length) ++ explicit ++ ct, { h with seq := h.seq + 1 })
  | .gcm =>
    let (c, t) := Spec.GCM.ae (Spec.SM4.encrypt h.keys.key) (h.keys.iv ++ explicit) payload (aad h.seq typ payload.length)
    (header typ (explicit.length + c.length + 16) ++ explicit ++ c ++ t, { h with seq := h.seq + 1 })

/-- `halfConn.decrypt` of a record body (after the 5-byte header): plaintext, or bad_record_mac -/
def Half.decrypt (h : Half) (typ : Byte) (body : Bytes) : Option Bytes × Half :=
  match h.suite with
  | .cbc =>
    if body.length % 16 ≠ 0 ∨ body.length < 64 then (none, h)   -- roundUp(16+32+1, 16) = 64
    else
      let iv := body.take 16
      let pt := cbcDecAll h.keys.key iv (body.drop 16)
      let (toRemove, good) := extractPadding pt
      if pt.length < 32 then (none, h) else
      let n := pt.length - 32 - toRemove        -- Nat subtraction: negative ↦ 0, as the code does
      let n := if pt.length < 32 + toRemove then 0 else n
      let data := pt.take n
      let remote := (pt.drop n).take 32
      if mac h.keys h.seq typ data = remote ∧ good then (some data, { h with seq := h.seq + 1 })
      else (none, h)
  | .gcm =>
    if body.length < 8 then (none, h) else
    let explicit := body.take 8
    let rest := body.drop 8
    if rest.length < 16 then (none, h) else
    let c := rest.take (rest.length - 16)
    let t := rest.drop (rest.length - 16)
    match Spec.GCM.ad (Spec.SM4.encrypt h.keys.key) (h.keys.iv ++ explicit) c (aad h.seq typ c.length) t with
    | some p => (some p, { h with seq := h.seq + 1 })
    | none => (none, h)

-- the writer (Conn.Write / writeRecordLocked) ---------------------------------------------------------

structure Writer where
  half : Half
  bytesSent : Nat
  packetsSent : Nat
  rand : Bytes            -- what Config.Rand will deliver

/-- `maxPayloadSizeForWrite` for application data (dynamic record sizing enabled) -/
def maxPayload (w : Writer) : Nat × Writer :=
  if w.bytesSent ≥ 128 * 1024 then (16384, w)
  else
    let explicitLen := match w.half.suite with | .cbc => 16 | .gcm => 8
    let pb := 1208 - 5 - explicitLen
    let pb := match w.half.suite with
      | .cbc => (pb / 16 * 16) - 1 - 32
      | .gcm => pb - 16
    let pkt := w.packetsSent
    let w' := { w with packetsSent := w.packetsSent + 1 }
    if pkt > 1000 then (16384, w') else (min (pb * (pkt + 1)) 16384, w')

/-- `writeRecordLocked(recordTypeApplicationData, data)`: the records written (fuel = a bound on the
    number of fragments; `data.length + 1` always suffices) -/
def writeRecords : Nat → Writer → Bytes → List Bytes × Writer
  | 0, w, _ => ([], w)
  | fuel+1, w, data =>
    if data.isEmpty then ([], w) else
    let (mx, w) := maxPayload w
    let m := min data.length mx
    let (explicit, w) := match w.half.suite with
      | .cbc => (w.rand.take 16, { w with rand := w.rand.drop 16 })
      | .gcm => (seqBytes w.half.seq, w)
    let (rec, half') := w.half.encrypt 23 explicit (data.take m)
    let w := { w with half := half', bytesSent := w.bytesSent + rec.length }
    let (rest, w) := writeRecords fuel w (data.drop m)
    (rec :: rest, w)

/-- `Conn.Write(b)`: for a block cipher at version ≤ TLS 1.0 (GMSSL is 0x0101) the first byte goes
    into a record of its own -/
def Writer.write (w : Writer) (b : Bytes) : List Bytes × Writer :=
  match w.half.suite with
  | .cbc =>
    if b.length > 1 then
      let (r1, w) := writeRecords 2 w (b.take 1)
      let (r2, w) := writeRecords (b.length + 1) w (b.drop 1)
      (r1 ++ r2, w)
    else writeRecords (b.length + 1) w b
  | .gcm => writeRecords (b.length + 1) w b

-- the reader (Conn.Read / readRecord) -------------------------------------------------------------------

inductive Status
  | eof              -- underlying stream ended at a record boundary (or close_notify)
  | ueof             -- stream ended inside a record: inside its 5-byte header or inside its body
  | alert (n : Nat)  -- local fatal alert sent
  | remote (n : Nat) -- fatal alert received
deriving DecidableEq, Repr

/-- read records from the wire bytes until the stream ends or an error is set; delivered = the
    application data handed to the caller (fuel bounds the number of records) -/
def readAll : Nat → Half → Nat → Bytes → Bytes × Status
  | 0, _, _, _ => ([], .eof)
  | fuel+1, h, warn, wire =>
    if wire.isEmpty then ([], .eof)
    else if wire.length < 5 then ([], .ueof)     -- EOF after 1..4 header bytes: io.ErrUnexpectedEOF (a truncated record)
    else
      let typ := wire.getD 0 0
      let vers := (wire.getD 1 0).toNat * 256 + (wire.getD 2 0).toNat
      let n := (wire.getD 3 0).toNat * 256 + (wire.getD 4 0).toNat
      if vers ≠ 0x0101 then ([], .alert 70)
      else if n > 16384 + 2048 then ([], .alert 22)
      else if wire.length < 5 + n then ([], .ueof)
      else
        let body := (wire.drop 5).take n
        let rest := wire.drop (5 + n)
        match h.decrypt typ body with
        | (none, _) => ([], .alert 20)
        | (some data, h') =>
          if data.length > 16384 then ([], .alert 22)
          else
            let warn := if typ ≠ 21 ∧ data.length > 0 then 0 else warn
            if typ = 23 then
              let (more, st) := readAll fuel h' warn rest
              (data ++ more, st)
            else if typ = 21 then
              if data.length ≠ 2 then ([], .alert 10)
              else if data.getD 1 0 = 0 then ([], .eof)                 -- close_notify
              else if data.getD 0 0 = 1 then                              -- warning: dropped
                if warn + 1 > 5 then ([], .alert 10) else readAll fuel h' (warn + 1) rest
              else if data.getD 0 0 = 2 then ([], .remote (data.getD 1 0).toNat)
              else ([], .alert 10)
            else if typ = 20 then ([], .alert 10)                         -- CCS after the handshake
            else if typ = 22 then ([], .alert 100)                        -- handshake data: no renegotiation (server)
            else ([], .alert 10)

end Model.Record
