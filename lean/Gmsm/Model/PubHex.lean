/-
Model of `x509.ReadPublicKeyFromHex` (x509/utils.go, as repaired) after `hex.DecodeString`: the optional 0x04
prefix of the 65-byte form, the length test, the two 32-byte coordinates and - the repair - the `IsOnCurve` test
of the curve object (`Model.SM2Curve.isOnCurve`, which also refuses coordinates outside [0, p)).
Core Lean only; executable.
-/
import Gmsm.Model.SM2Curve
import Gmsm.Model.SM2Codec
namespace Model.PubHex
open Gmsm

/-- `if len(q)==65 && q[0]==0x04 { q = q[1:] }` -/
def stripPrefix (q : Bytes) : Bytes :=
  if q.length = 65 ∧ q.head? = some 4 then q.drop 1 else q

/-- `ReadPublicKeyFromHex` on the decoded bytes: the point, or none for an error -/
def readPublicKey (q : Bytes) : Option (Nat × Nat) :=
  let q := stripPrefix q
  if q.length ≠ 64 then none
  else
    let x := os2ip (q.take 32)
    let y := os2ip (q.drop 32)
    if Model.SM2Curve.isOnCurve x y then some (x, y) else none

/-- the unrepaired function: any 64 bytes are a key -/
def readPublicKeyOld (q : Bytes) : Option (Nat × Nat) :=
  let q := stripPrefix q
  if q.length ≠ 64 then none else some (os2ip (q.take 32), os2ip (q.drop 32))

end Model.PubHex
