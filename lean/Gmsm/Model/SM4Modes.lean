/-
Model of the mode helpers of sm4/sm4.go:257-492 (`Sm4Ecb`, `Sm4Cbc`, `Sm4CFB`, `Sm4OFB`,
`pkcs7Padding`, `pkcs7UnPadding`, `SetIV`) as the Go code computes them: key-length check, padding on
encryption, a loop over `len(inData)/16` blocks (a trailing partial block of a ciphertext is left as
zero bytes), un-padding whose error is ignored (the result is then a nil slice), the process-wide `IV`.
The per-block chaining is SP 800-38A's (`Spec.Modes`), the block function is `Spec.SM4` (equal to the
Go block function by C05).  Also a small slice-with-capacity heap model for `pkcs7Padding`.
-/
import Gmsm.Spec.SM4
import Gmsm.Spec.Modes
namespace Model.SM4Modes
open Gmsm Spec.Modes

inductive Mode | ecb | cbc | cfb | ofb
deriving DecidableEq, Repr

/-- `pkcs7UnPadding`: error ↦ none -/
def unpad (src : Bytes) : Option Bytes :=
  if src.length = 0 then none
  else
    let last := src.getLastD 0
    let k := last.toNat
    if k > 16 ∨ k = 0 then none
    else if k > src.length then none   -- Go: slice bounds panic; see `unpad_panics`
    else if (src.drop (src.length - k)).all (· == last) then some (src.take (src.length - k)) else none

/-- `pkcs7UnPadding` panics (slice bounds) exactly when the claimed pad is longer than the input;
    cannot happen for inputs whose length is a positive multiple of 16. -/
def unpadPanics (src : Bytes) : Bool :=
  src.length ≠ 0 ∧ (src.getLastD 0).toNat ≤ 16 ∧ (src.getLastD 0).toNat ≠ 0 ∧ (src.getLastD 0).toNat > src.length

def runBlocks (m : Mode) (enc : Bool) (E D : Bytes → Bytes) (iv : Bytes) (bs : List Bytes) : List Bytes :=
  match m, enc with
  | .ecb, true => ecb E bs
  | .ecb, false => ecb D bs
  | .cbc, true => cbcEnc E iv bs
  | .cbc, false => cbcDec D iv bs
  | .cfb, true => cfbEnc E iv bs
  | .cfb, false => cfbDec E iv bs
  | .ofb, _ => ofb E iv bs

inductive Res where
  | ok (out : Bytes)
  | nil            -- (nil, nil): un-padding failed and its error was dropped
  | err            -- key length error
  | panic
deriving DecidableEq, Repr

/-- `Sm4Xxx(key, in, mode)` with the package variable `IV = iv` (16 bytes) -/
def helper (m : Mode) (key iv inp : Bytes) (enc : Bool) : Res :=
  if key.length ≠ 16 then .err
  else
    let E := Spec.SM4.encrypt key
    let D := Spec.SM4.decrypt key
    let inData := if enc then pad16 inp else inp
    let n := inData.length / 16
    let outBlocks := (runBlocks m enc E D iv (blocks n inData)).flatten
    let out := outBlocks ++ List.replicate (inData.length - 16 * n) 0
    if enc then .ok out
    else if unpadPanics out then .panic
    else match unpad out with
      | some p => .ok p
      | none => .nil

-- slices with capacity: does `pkcs7Padding` write memory of the caller? ---------------------------

/-- a Go byte slice: a window `[off, off+len)` of a backing array with `cap` cells available from `off` -/
structure Slice where
  arr : Nat
  off : Nat
  len : Nat
  cap : Nat
deriving DecidableEq, Repr

abbrev Heap := List Bytes

def Heap.read (h : Heap) (s : Slice) : Bytes := ((h.getD s.arr []).drop s.off).take s.len

def writeAt (a : Bytes) (off : Nat) (d : Bytes) : Bytes := a.take off ++ d ++ a.drop (off + d.length)

/-- Go's `append(s, d...)`: in place when `len+|d| ≤ cap`, else a fresh array -/
def goAppend (h : Heap) (s : Slice) (d : Bytes) : Heap × Slice :=
  if s.len + d.length ≤ s.cap then
    (h.set s.arr (writeAt (h.getD s.arr []) (s.off + s.len) d), { s with len := s.len + d.length })
  else
    (h ++ [h.read s ++ d], ⟨h.length, 0, s.len + d.length, s.len + d.length⟩)

def padBytes (n : Nat) : Bytes := List.replicate (16 - n % 16) (BitVec.ofNat 8 (16 - n % 16))

/-- `pkcs7Padding` of the pinned commit: `append(src, padtext...)` -/
def paddingOld (h : Heap) (src : Slice) : Heap × Slice := goAppend h src (padBytes src.len)

/-- repaired `pkcs7Padding`: always a fresh array -/
def paddingNew (h : Heap) (src : Slice) : Heap × Slice :=
  (h ++ [h.read src ++ padBytes src.len], ⟨h.length, 0, src.len + (padBytes src.len).length, src.len + (padBytes src.len).length⟩)

end Model.SM4Modes
