/-
What an honest gmtls endpoint WRITES during a handshake, as a function of the same `Cfg` that tells
`Model.Handshake` what the endpoint READS.

Reading of the `Cfg` fields here: they are facts of the connection, fixed by the two hello messages and the two
configurations, and the same on both ends of an honest connection:
  gm       the GMSSL code is running (`serverHandshakeGM` / `clientHandshakeStateGM`), otherwise the TLS code
  resume   the server accepted the ticket (`checkForResumption`), so its ServerHello echoes the session id
  reqCert  the server's `ClientAuth >= RequestClientCert`: it writes CertificateRequest (full handshake only)
  peerCert the client has a certificate to answer with (`chainToSend.Certificate` not empty); without one it
           answers a CertificateRequest with an empty Certificate message and no CertificateVerify
  ticket   `hs.hello.ticketSupported` of the ServerHello: a NewSessionTicket precedes the server's ChangeCipherSpec
           (full: the client offered tickets and they are enabled; resumed: the ticket was under an old key)
  ocsp     `hs.hello.ocspStapling` of the ServerHello: a CertificateStatus follows the server's Certificate
  skx      the suite's key agreement produces a ServerKeyExchange (ECDHE; the GMSSL ECC/ECDHE agreements always do)
  npn      `hs.hello.nextProtoNeg`: the client writes NextProtocol between ChangeCipherSpec and Finished

Sources (order of the `writeRecord` calls):
  server  `doResumeHandshake` + `sendSessionTicket` + `sendFinished`, resp. `doFullHandshake` (ServerHello,
          Certificate, [CertificateStatus], [ServerKeyExchange], [CertificateRequest], ServerHelloDone) +
          `sendSessionTicket` + `sendFinished`, in gm_handshake_server_double.go and handshake_server.go
  client  `handshake` (ClientHello), `doFullHandshake` ([Certificate], ClientKeyExchange, [CertificateVerify]),
          `sendFinished` (ChangeCipherSpec, [NextProtocol], Finished), in gm_handshake_client_double.go and
          handshake_client.go
The same tables, split into flights, are `Driver.HS.flightsOf` (the honest stream of the correspondence runs).
Core Lean only; executable.
-/
import Gmsm.Model.Handshake
namespace Model.Handshake

def optMsg (b : Bool) (m : Msg) : List Msg := if b then [m] else []

/-- the server's last flight: `sendSessionTicket` (writes only if `ticketSupported`), `sendFinished` -/
def serverFinish (c : Cfg) : List Msg := optMsg c.ticket .newSessionTicket ++ [.ccs, .finished]

/-- everything an honest server writes, in order -/
def serverSends (c : Cfg) : List Msg :=
  if c.resume then .serverHello :: serverFinish c
  else [.serverHello, .certificate] ++ optMsg c.ocsp .certificateStatus ++ optMsg (c.gm || c.skx) .serverKeyExchange ++
    optMsg c.reqCert .certificateRequest ++ [.serverHelloDone] ++ serverFinish c

/-- the client's answer to the server's first flight in a full handshake -/
def clientKeyFlight (c : Cfg) : List Msg :=
  optMsg c.reqCert .certificate ++ [.clientKeyExchange] ++ optMsg (c.reqCert && c.peerCert) .certificateVerify

/-- everything an honest client writes, in order -/
def clientSends (c : Cfg) : List Msg :=
  [.clientHello] ++ (if c.resume then [] else clientKeyFlight c) ++ [.ccs] ++ optMsg c.npn .nextProtocol ++ [.finished]

/-- what an honest endpoint of configuration `c` writes during the handshake -/
def sends (c : Cfg) : List Msg := if c.server then serverSends c else clientSends c

/-- the honest other end of the same connection: same facts, opposite role -/
def peer (c : Cfg) : Cfg := { c with server := !c.server }

/-- Correctly configured pairs.  Every combination of the fields is one, except a GMSSL full handshake whose
    ServerHello carries status_request: the GMSSL server code would then write a CertificateStatus
    (gm_handshake_server_double.go, `if hs.hello.ocspStapling`), which the GMSSL client code does not read
    (after Certificate it insists on ServerKeyExchange).  Two gmtls GMSSL ends never get there: the server sets
    the flag only if the ClientHello asked for it, and `makeClientHelloGM` never does. -/
def Compatible (c : Cfg) : Prop := c.gm = true → c.ocsp = true → c.resume = true

instance (c : Cfg) : Decidable (Compatible c) := by unfold Compatible; infer_instance

/-- the facts two gmtls ends can actually negotiate: in addition, GMSSL ends never agree on NPN
    (`makeClientHelloGM` does not offer it) and a resumed handshake has no status_request in the ServerHello
    (`doResumeHandshake` does not set it) -/
def Reachable (c : Cfg) : Prop :=
  (c.gm = true → c.ocsp = false ∧ c.npn = false) ∧ (c.resume = true → c.ocsp = false)

-- tolerated events between the messages of a flight -------------------------------------------------------------

/-- `c.warnCount` after a stretch `t` of tolerated events, started at `w`: a warning alert raises it and must not
    take it past `maxWarnAlertCount`; a handshake record with data (`fragment`) clears it; an empty handshake
    record and the `trailing` marker leave it.  `none`: the limit was passed. -/
def warnAfter : Nat → List Msg → Option Nat
  | w, [] => some w
  | w, .warningAlert :: t => if w + 1 > maxWarnAlertCount then none else warnAfter (w + 1) t
  | _, .fragment :: t => warnAfter 0 t
  | w, _ :: t => warnAfter w t

/-- May the stretch `t` of tolerated events precede the message `m`, when it starts with `w` counted warning
    alerts and `pend` (part of a message buffered)?  In every case the warning-alert count must not pass the limit.
    Before ChangeCipherSpec: warning alerts only, and nothing buffered — every handshake record, even an empty
    one, is refused while the code waits for ChangeCipherSpec, and buffered bytes make the ChangeCipherSpec itself
    an error.  Before a handshake message: any tolerated events. -/
def gapOkAt (w : Nat) (pend : Bool) (t : List Msg) (m : Msg) : Bool :=
  (warnAfter w t).isSome && (if m = .ccs then !pend && t.all (· == .warningAlert) else t.all tolerated)

/-- the same after a message has been taken (count 0, nothing buffered) and at the start of the handshake -/
def gapOk (t : List Msg) (m : Msg) : Bool := gapOkAt 0 false t m

/-- a flight with a stretch of other events in front of each message: `[(t₁, m₁), …, (tₙ, mₙ)]` stands for
    `t₁ ++ [m₁] ++ … ++ tₙ ++ [mₙ]` -/
def weave : List (List Msg × Msg) → List Msg
  | [] => []
  | (t, m) :: gs => t ++ m :: weave gs

end Model.Handshake
