/-
Byte-level model of the top-level glue of sm4/sm4_gcm.go (as repaired: 427ae00, 6ea9e71, 400770d):
`GetH`, `GetY0`, `MSB`, the counter-mode loops that `GCMEncrypt` and `GCMDecrypt` both contain
(over the counter blocks that `incr` produced), `GCMEncrypt`, `GCMDecrypt` and the wrapper `Sm4GCM`.
Parameterised by the block cipher `E : Bytes → Bytes` (`c.Encrypt(dst, src)` after `NewCipher(K)`).
Built on `Model.GCMBytes` (`GHASH`, `incr`, `addition`, `calculm_v`).  Core Lean only; executable.

Conventions as in `Model.GCMBytes`; in addition `copy(dst[lo:hi], src)` on an existing buffer is
`copyInto dst lo hi src` (the first `min (hi-lo) len(src)` bytes of `src` overwrite `dst` from `lo`).
The output buffer `C := make([]byte, len(P))` is a real buffer in the model: every loop iteration
overwrites its 16-byte window.
-/
import Gmsm.Model.GCMBytes
namespace Model.GCMTop
open Gmsm Model.GCMBytes

/-- `GetH(key)`: `zores := make([]byte, BlockSize); c.Encrypt(H, zores)` -/
def getH (E : Bytes → Bytes) : Bytes := E (List.replicate blockSize 0)

/-- `GetY0(H, IV)`: `IV ‖ 00 00 00 01` when `len(IV)*8 == 96`, else `GHASH(H, []byte{}, IV)` -/
def getY0 (h iv : Bytes) : Bytes :=
  if iv.length * 8 = 96 then iv ++ [0x00, 0x00, 0x00, 0x01] else ghashGo h [] iv

/-- `MSB(len, S)`: `S[:len/8]` -/
def msb (len : Nat) (s : Bytes) : Bytes := s.take (len / 8)

/-- `copy(dst[lo:hi], src)`: the new contents of `dst` -/
def copyInto (dst : Bytes) (lo hi : Nat) (src : Bytes) : Bytes :=
  let k := min (hi - lo) src.length
  dst.take lo ++ src.take k ++ dst.drop (lo + k)

/-- body of `for i := 1; i <= n-1; i++`:
    `c.Encrypt(Enc, Y[i*16:i*16+16]); copy(C[(i-1)*16:(i-1)*16+16], addition(P[(i-1)*16:(i-1)*16+16], Enc))` -/
def ctrStep (E : Bytes → Bytes) (y x : Bytes) (c : Bytes) (i : Nat) : Bytes :=
  let enc := E (slice y (i * blockSize) (i * blockSize + blockSize))
  copyInto c ((i - 1) * blockSize) ((i - 1) * blockSize + blockSize)
    (addition (slice x ((i - 1) * blockSize) ((i - 1) * blockSize + blockSize)) enc)

/-- the counter-mode part of `GCMEncrypt` (on `P`) and of `GCMDecrypt` (on `C`), the same code in both:
    `n, u = calculm_v(len/16, len%16); Y = incr(n+1, Y0); out := make([]byte, len)`; blocks `1 … n-1`;
    then block `n`: `c.Encrypt(Enc, Y[n*16:n*16+16]); out := MSB(u, Enc);
    copy(C[(n-1)*16:], addition(P[(n-1)*16:], out))` -/
def ctrLoops (E : Bytes → Bytes) (y0 x : Bytes) : Bytes :=
  let nu := calculm_v (x.length / blockSize) (x.length % blockSize)
  let n := nu.1
  let u := nu.2
  let y := incr (n + 1) y0
  let c : Bytes := List.replicate x.length 0
  -- i = 1 … n-1
  let c := (List.range' 1 (n - 1)).foldl (ctrStep E y x) c
  -- i = n
  let enc := E (slice y (n * blockSize) (n * blockSize + blockSize))
  let out := msb u enc
  copyInto c ((n - 1) * blockSize) x.length (addition (x.drop ((n - 1) * blockSize)) out)

/-- `GCMEncrypt(K, IV, P, A) = (C, T)`; `T = MSB(128, addition(E(Y0), GHASH(H, A, C)))` -/
def gcmEncryptGo (E : Bytes → Bytes) (iv p a : Bytes) : Bytes × Bytes :=
  let h := getH E
  let y0 := getY0 h iv
  let c := ctrLoops E y0 p
  let enc := E y0
  let t := msb 128 (addition enc (ghashGo h a c))
  (c, t)

/-- `GCMDecrypt(K, IV, C, A) = (P, _T)`: the recomputed tag `_T` is returned for the caller to compare;
    the plaintext is returned whatever the tag -/
def gcmDecryptGo (E : Bytes → Bytes) (iv c a : Bytes) : Bytes × Bytes :=
  let h := getH E
  let y0 := getY0 h iv
  let enc := E y0
  let t := msb 128 (addition enc (ghashGo h a c))
  let p := ctrLoops E y0 c
  (p, t)

/-- `Sm4GCM(key, IV, in, A, mode)`: an error (`none`) for a key that is not 16 bytes; otherwise
    `GCMEncrypt` (`mode = true`) or `GCMDecrypt` (`mode = false`).  No tag comparison happens here.
    `cipher key` is the block encryption under `key`. -/
def sm4GCMGo (cipher : Bytes → Bytes → Bytes) (key iv inp a : Bytes) (mode : Bool) : Option (Bytes × Bytes) :=
  if key.length ≠ blockSize then none
  else if mode then some (gcmEncryptGo (cipher key) iv inp a)
  else some (gcmDecryptGo (cipher key) iv inp a)

end Model.GCMTop
