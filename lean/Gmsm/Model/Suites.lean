/-
Cipher-suite tables of gmtls as regenerated from the source (`Gen.TLS`) and the selection predicates the
handshake code applies to them.  Core Lean only; executable.
-/
import Gmsm.Gen.TLSTables
namespace Model.Suites

abbrev Suite := Nat

/-- `defaultCipherSuites()` as `initDefaultCipherSuites` builds it: the top list, then every table row that is
    not default-off and not already present -/
def tlsDefaultList : List Suite :=
  Gen.TLS.cipherSuites.foldl (fun acc r => if r.2.2.2.2 || acc.contains r.1 then acc else acc ++ [r.1]) Gen.TLS.topCipherSuites

def gmDefaultList : List Suite := Gen.TLS.gmDefaultSuites

def tlsRow (s : Suite) : Option (Nat × Bool × Bool × Bool × Bool) := Gen.TLS.cipherSuites.find? (·.1 == s)
def gmRow (s : Suite) : Option (Nat × Bool × Bool) := Gen.TLS.gmCipherSuites.find? (·.1 == s)

def isGM (s : Suite) : Bool := (gmRow s).isSome
def isTLS (s : Suite) : Bool := (tlsRow s).isSome

/-- GMSSL server `setCipherSuite`: a table row that is not an ECDHE suite (the server side of ECDHE-SM2 does
    not exist; repaired selection skips them) -/
def gmServable (s : Suite) : Bool :=
  match gmRow s with
  | some (_, ecdhe, _) => !ecdhe
  | none => false

/-- GMSSL client, `makeClientHelloGM` (repaired): a configured id is put into the ClientHello when it has a row in
    `gmCipherSuites` and that row is not an ECDHE suite.  The client side of the ECDHE-SM2 key exchange cannot be
    completed with any peer (`ecdheKeyAgreementGM.processServerKeyExchange` refuses every named_curve), so this is
    also the predicate "the client can complete the key exchange of suite `s`". -/
def gmClientKx (s : Suite) : Bool :=
  match gmRow s with
  | some (_, ecdhe, _) => !ecdhe
  | none => false

inductive CertKind | rsa | ec
deriving DecidableEq, Repr

/-- TLS server `setCipherSuite` for a certificate kind and protocol version (`ellipticOk` holds for the
    clients used): ECDHE_ECDSA needs an EC key, ECDHE_RSA an RSA signing key, plain RSA an RSA decryption key;
    TLS-1.2-only suites need version ≥ 0x0303 -/
def tlsServable (k : CertKind) (vers : Nat) (s : Suite) : Bool :=
  match tlsRow s with
  | some (_, ecdhe, ecdsa, tls12, _) =>
    (if ecdhe then (if ecdsa then k == .ec else k == .rsa) else k == .rsa) && (!tls12 || decide (vers ≥ 0x0303))
  | none => false

/-- the server's pick: the first id of the preference list that the other list contains and that can be served -/
def pick (pref other : List Suite) (ok : Suite → Bool) : Option Suite :=
  pref.find? (fun s => other.contains s && ok s)

end Model.Suites
