/-
Model of x509/verify.go + cert_pool.go (`Certificate.Verify`, `buildChains`, `isValid`,
`findVerifiedParents`, `CheckSignatureFrom`, `VerifyHostname`, `matchHostnames`,
`checkChainForKeyUsage`) over abstract certificates: a record of exactly the fields `Verify` reads,
with the signature relation given by key identities (`signer` = the key that produced the
signature).  Core Lean only; executable.
-/
namespace Model.X509

structure Cert where
  id : Nat                      -- identity of the DER encoding (Equal compares Raw)
  subj : Nat                    -- RawSubject
  iss : Nat                     -- RawIssuer
  key : Nat                     -- the public key in the certificate
  signer : Nat                  -- the key whose signature is on the certificate (0 = garbage)
  ski : Option Nat              -- SubjectKeyId
  aki : Option Nat              -- AuthorityKeyId
  nb : Int                      -- NotBefore
  na : Int                      -- NotAfter
  bcValid : Bool
  isCA : Bool
  maxPathLen : Int              -- -1 = unset
  keyUsage : Nat                -- bit 32 (0x20) = certSign; 0 = extension absent
  permitted : List String       -- PermittedDNSDomains
  dns : List String
  ips : List String             -- IP SANs in canonical text form
  cn : String
  eku : List Nat                -- 0 = any, 1 = serverAuth, 2 = clientAuth, … 10/11 = MS/Netscape SGC
  unknownEku : Bool
  critical : Bool               -- UnhandledCriticalExtensions non-empty
  version : Nat := 3            -- X.509 version (1, 2 or 3); certificates made by CreateCertificate are v3
deriving Repr, DecidableEq

structure Opts where
  now : Int
  dnsName : String
  hostIsIP : Bool               -- net.ParseIP(candidate) succeeded
  hostIP : String               -- canonical form of that IP
  usages : List Nat             -- requested ExtKeyUsage (empty ⇒ serverAuth)
deriving Repr

def certSign : Nat := 0x20

/-- `CheckSignatureFrom(parent)`: the CA conditions, then the signature itself -/
def checkSigFrom (c parent : Cert) : Bool :=
  !((parent.version == 3 && !parent.bcValid) || (parent.bcValid && !parent.isCA)) &&
  !(parent.keyUsage != 0 && parent.keyUsage &&& certSign == 0) &&
  (c.signer == parent.key && c.signer != 0)

/-- the child's AuthorityKeyId is present and equals the candidate's SubjectKeyId (the `bySubjectKeyId` index) -/
def keyIdMatch (c p : Cert) : Bool :=
  match c.aki with
  | some k => p.ski == some k
  | none => false

/-- `findVerifiedParents`: the candidates are the pool members whose SubjectKeyId equals the child's
    AuthorityKeyId (if it has one), followed by the members named like the child's issuer that are not already
    listed; every candidate is then signature-checked.  (Before the repair of round 9 the name index was consulted
    only when the key-id index gave nothing.) -/
def findVerifiedParents (pool : List Cert) (c : Cert) : List Cert :=
  let byKey := pool.filter (keyIdMatch c)
  let byName := pool.filter (fun (p : Cert) => p.subj == c.iss && !keyIdMatch c p)
  (byKey ++ byName).filter (checkSigFrom c)

/-- `matchNameConstraint` -/
def matchNameConstraint (domain constraint : String) : Bool :=
  if constraint.length == 0 then true
  else if domain.length < constraint.length then false
  else
    let prefixLen := domain.length - constraint.length
    let lower (s : String) := s.map Char.toLower
    if lower (domain.drop prefixLen).toString != lower constraint then false
    else if prefixLen == 0 then true
    else
      let isSub := (domain.toList.getD (prefixLen - 1) ' ') == '.'
      let lead := (constraint.toList.getD 0 ' ') == '.'
      isSub != lead

inductive Reason | nameMismatch | expired | notAuthorizedForName | notAuthorizedToSign | tooManyIntermediates
deriving Repr, DecidableEq

inductive Kind | leaf | intermediate | root
deriving Repr, DecidableEq

def trimDot (s : String) : String := if s.endsWith "." then (s.dropEnd 1).toString else s

/-- `dnsNameForConstraints(opts.DNSName)`: the DNS name that permitted DNS domains are compared with — the
    requested host without its trailing dot; none when no host was requested or the host is an IP address
    (plain or in brackets, `hostIsIP`), exactly the reading `VerifyHostname` makes of the same string.
    (Before the repair the raw `opts.DNSName` was compared, whatever it was.) -/
def constraintName (o : Opts) : Option String :=
  if o.dnsName.length == 0 || o.hostIsIP then none else some (trimDot o.dnsName)

/-- the permitted-DNS-domains test of `isValid`: nothing to test without a DNS name or without constraints;
    otherwise one permitted domain must match the name -/
def permittedOK (c : Cert) (o : Opts) : Bool :=
  match constraintName o with
  | none => true
  | some name => c.permitted.isEmpty || c.permitted.any (matchNameConstraint name)

/-- `isValid(certType, currentChain, opts)`; `chain` is the current chain, leaf first.  The permitted DNS domains
    of a certificate constrain what is issued below it: the test is made for issuers (`certType !=
    leafCertificate`) only.  (Before the repair of round 11 it was made for the certificate being verified too:
    a leaf whose own permitted domains did not cover the requested host was refused.) -/
def isValid (c : Cert) (kind : Kind) (chain : List Cert) (o : Opts) : Option Reason :=
  if (match chain.getLast? with | some child => child.iss != c.subj | none => false) then some .nameMismatch
  else if o.now < c.nb || o.now > c.na then some .expired
  else if kind != .leaf && !permittedOK c o then some .notAuthorizedForName
  else if kind == .intermediate && (!c.bcValid || !c.isCA) then some .notAuthorizedToSign
  else if c.bcValid && c.maxPathLen >= 0 && (Int.ofNat chain.length - 1 > c.maxPathLen) then some .tooManyIntermediates
  else none

/-- `buildChains`: chains (leaf first) extending `chain`; `fuel` = remaining recursion depth,
    `steps` = the work budget (`maxChainBuildSteps`), threaded through. -/
def buildChains (roots inters : List Cert) (o : Opts) : Nat → Nat → List Cert → List (List Cert) × Nat
  | 0, steps, _ => ([], steps)
  | fuel+1, steps, chain =>
    if steps = 0 then ([], 0) else
    match chain.getLast? with
    | none => ([], steps)
    | some c =>
      let steps := steps - 1
      let viaRoots := (findVerifiedParents roots c).filterMap fun r =>
        if chain.any (·.id == r.id) then none
        else if (isValid r .root chain o).isSome then none
        else some (chain ++ [r])
      let step := fun (acc : List (List Cert) × Nat) (i : Cert) =>
        if chain.any (·.id == i.id) then acc
        else if (isValid i .intermediate chain o).isSome then acc
        else
          let (cs, st) := buildChains roots inters o fuel acc.2 (chain ++ [i])
          (acc.1 ++ cs, st)
      (findVerifiedParents inters c).foldl step (viaRoots, steps)

def lowerASCII (s : String) : String := s.map fun c => if 'A' ≤ c ∧ c ≤ 'Z' then Char.ofNat (c.toNat + 32) else c

/-- `matchHostnames(pattern, host)` -/
def matchHostnames (pattern host : String) : Bool :=
  let host := trimDot host
  let pattern := trimDot pattern
  if pattern.length == 0 || host.length == 0 then false
  else
    let pp := pattern.splitOn "."
    let hp := host.splitOn "."
    if pp.length != hp.length then false
    else (List.zip pp hp).zipIdx.all fun ((p, h), i) => (i == 0 && p == "*") || p == h

/-- `VerifyHostname(h)` -/
def verifyHostname (c : Cert) (o : Opts) : Bool :=
  if o.hostIsIP then c.ips.contains o.hostIP
  else
    let lowered := lowerASCII o.dnsName
    if !c.dns.isEmpty then c.dns.any (fun m => matchHostnames (lowerASCII m) lowered)
    else matchHostnames (lowerASCII c.cn) lowered

/-- `checkChainForKeyUsage`: walk from the root down, crossing out requested usages a certificate
    does not support; acceptable while at least one requested usage survives -/
def ekuSupports (c : Cert) (req : Nat) : Bool :=
  c.eku.any fun u => u == req || (req == 1 && (u == 10 || u == 11))

def checkChainForKeyUsage (chain : List Cert) (usages : List Nat) : Bool :=
  if chain.isEmpty then false else
  let final := chain.reverse.foldl (fun (us : Option (List Nat)) c =>
    match us with
    | none => none
    | some us =>
      if c.eku.isEmpty && !c.unknownEku then some us
      else if c.eku.contains 0 then some us
      else
        let us' := us.filter (ekuSupports c)
        if us'.isEmpty then none else some us') (some usages)
  final.isSome

inductive Res
  | ok (chains : List (List Nat))
  | critical | leafInvalid (r : Reason) | hostname | noChain | usage
deriving Repr

def maxSteps : Nat := 1000

/-- `Certificate.Verify(opts)` -/
def verify (roots inters : List Cert) (leaf : Cert) (o : Opts) : Res :=
  if leaf.critical then .critical
  else match isValid leaf .leaf [] o with
  | some r => .leafInvalid r
  | none =>
    if o.dnsName.length > 0 && !verifyHostname leaf o then .hostname
    else
      let cands :=
        if roots.any (·.id == leaf.id) then [[leaf]]
        else (buildChains roots inters o (roots.length + inters.length + 2) maxSteps [leaf]).1
      if cands.isEmpty then .noChain
      else
        let usages := if o.usages.isEmpty then [1] else o.usages
        if usages.contains 0 then .ok (cands.map (·.map (·.id)))
        else
          let good := cands.filter (checkChainForKeyUsage · usages)
          if good.isEmpty then .usage else .ok (good.map (·.map (·.id)))

end Model.X509
