/-
Model of the code that USES the SM3 object through the `hash.Hash` interface:

 a. Go's generic `crypto/hmac` (`$GOROOT/src/crypto/hmac/hmac.go`, go1.23: the toolchain /repo builds
    with; there is no `crypto/internal/fips140` in that release).  Path actually taken for gmsm's SM3:
    `boring.Enabled` is false, and `*sm3.SM3` has no `MarshalBinary`/`UnmarshalBinary` methods
    (sm3/sm3.go defines only BlockSize, Size, Reset, Write, Sum), so the type assertion
    `h.inner.(marshalable)` in `Reset` fails, `marshaled` stays false for ever, and `Sum`/`Reset` always
    take the `outer.Reset(); outer.Write(opad)` / `inner.Reset(); inner.Write(ipad)` branches.
 b. `pbkdf` of x509/pkcs8.go (the library's own copy of PBKDF2).
 c. `pHash`, `prf12(sm3.New)` of gmtls/prf.go and `tls10MAC.MAC` of gmtls/cipher_suites.go as built by
    `macSM3` (gmtls/gm_support.go: `tls10MAC{hmac.New(sm3.New, key)}`).

Everything is a step-for-step transcription over the object operations `Model.SM3.init` (= `New` and
`Reset`), `Model.SM3.write` and a `Sum` implementation `hsum`.  The `Sum` implementation is a PARAMETER
of the generic definitions (suffix `G`), so that the same client code can be run over the repaired
`Model.SM3.sum` (the definitions without suffix) and over the pinned commit's `Model.SM3.sumOld`
(`Props.C04HMAC.hmac_breaks_with_sumOld`).  Byte slices are `Gmsm.Bytes`; `Sum(in)` returns the whole
slice `in ‖ digest`; Go slice expressions `x[a:]`, `x[:a]` are `List.drop`/`List.take` (where Go would
panic because the bound exceeds the length, the model truncates: this can only happen with a `Sum`
that returns fewer bytes than it was given, i.e. never with `Model.SM3.sum`).
Core Lean only; executable.
-/
import Gmsm.Model.SM3
namespace Model.HMAC
open Gmsm Model.SM3

/-- a `Sum` implementation of the underlying hash object: new object state and returned slice -/
abbrev SumImpl := State → Bytes → State × Bytes

/-- `type hmac struct { opad, ipad []byte; outer, inner hash.Hash; marshaled bool }` with
    `marshaled = false` throughout (see the header) -/
structure HState where
  opad : Bytes
  ipad : Bytes
  outer : State
  inner : State
deriving DecidableEq

/-- `copy(dst, src)` : the first `min(len dst, len src)` bytes of `dst` are replaced -/
def goCopy (dst src : Bytes) : Bytes := src.take dst.length ++ dst.drop src.length

/-- `hmac.New(sm3.New, key)`:
    ```
    hm.outer = h(); hm.inner = h()
    blocksize := hm.inner.BlockSize()                       // 64
    hm.ipad = make([]byte, blocksize); hm.opad = make([]byte, blocksize)
    if len(key) > blocksize { hm.outer.Write(key); key = hm.outer.Sum(nil) }
    copy(hm.ipad, key); copy(hm.opad, key)
    for i := range hm.ipad { hm.ipad[i] ^= 0x36 }
    for i := range hm.opad { hm.opad[i] ^= 0x5c }
    hm.inner.Write(hm.ipad)
    ```
    (the outer object is left holding the long key; every later use starts with `outer.Reset()`) -/
def newG (hsum : SumImpl) (key : Bytes) : HState :=
  let outer := init
  let inner := init
  let blocksize := 64
  let (outer, key) :=
    if key.length > blocksize then
      let outer := write outer key
      hsum outer []
    else (outer, key)
  let ipad := (goCopy (List.replicate blocksize 0) key).map (· ^^^ 0x36)
  let opad := (goCopy (List.replicate blocksize 0) key).map (· ^^^ 0x5c)
  let inner := write inner ipad
  ⟨opad, ipad, outer, inner⟩

/-- `func (h *hmac) Write(p []byte) (n int, err error) { return h.inner.Write(p) }` -/
def writeH (h : HState) (p : Bytes) : HState := { h with inner := write h.inner p }

/-- `func (h *hmac) Sum(in []byte) []byte`, non-marshaled branch:
    ```
    origLen := len(in)
    in = h.inner.Sum(in)
    h.outer.Reset(); h.outer.Write(h.opad)
    h.outer.Write(in[origLen:])
    return h.outer.Sum(in[:origLen])
    ``` -/
def sumG (hsum : SumImpl) (h : HState) (pre : Bytes) : HState × Bytes :=
  let origLen := pre.length
  let (inner, in1) := hsum h.inner pre
  let outer := init
  let outer := write outer h.opad
  let outer := write outer (in1.drop origLen)
  let (outer, out) := hsum outer (in1.take origLen)
  ({ h with outer := outer, inner := inner }, out)

/-- `func (h *hmac) Reset()`, as it runs for a hash that is not marshalable:
    `h.inner.Reset(); h.inner.Write(h.ipad)` and return at `if !innerOK` -/
def resetH (h : HState) : HState := { h with inner := write init h.ipad }

/-- `func (h *hmac) Size() int { return h.outer.Size() }` (sm3: 32) -/
def size (_ : HState) : Nat := 32
/-- `func (h *hmac) BlockSize() int { return h.inner.BlockSize() }` (sm3: 64) -/
def blockSize (_ : HState) : Nat := 64

/-- operations of a history on one HMAC object -/
inductive Op where
  | write (p : Bytes)
  | sum (pre : Bytes)
  | reset

/-- run a history on an HMAC object; outputs are the results of the `Sum` calls, in order -/
def runG (hsum : SumImpl) : HState → List Op → List Bytes
  | _, [] => []
  | h, .write p :: ops => runG hsum (writeH h p) ops
  | h, .sum pre :: ops => let r := sumG hsum h pre; r.2 :: runG hsum r.1 ops
  | h, .reset :: ops => runG hsum (resetH h) ops

-- the instances over the repaired `Sum` -------------------------------------------------------

def new (key : Bytes) : HState := newG sum key
def sumH (h : HState) (pre : Bytes) : HState × Bytes := sumG sum h pre
def run : HState → List Op → List Bytes := runG sum

-- x509/pkcs8.go pbkdf -------------------------------------------------------------------------

/-- `for x := range U { T[x] ^= U[x] }` -/
def xorInto (T U : Bytes) : Bytes := xorBytes T U ++ T.drop U.length

/-- `buf[0] = byte(block >> 24); buf[1] = byte(block >> 16); buf[2] = byte(block >> 8); buf[3] = byte(block)` -/
def blockCounter (block : Nat) : Bytes :=
  [BitVec.ofNat 8 (block >>> 24), BitVec.ofNat 8 (block >>> 16), BitVec.ofNat 8 (block >>> 8), BitVec.ofNat 8 block]

/-- the inner loop of `pbkdf`, `cnt` iterations (`for n := 2; n <= iter; n++`, so `cnt = iter - 1`):
    ```
    prf.Reset(); prf.Write(U); U = U[:0]; U = prf.Sum(U)
    for x := range U { T[x] ^= U[x] }
    ```
    state: the HMAC object, `T` (the last `hashLen` bytes of `dk`, updated in place), `U` -/
def pbkdfInnerG (hsum : SumImpl) : Nat → HState → Bytes → Bytes → HState × Bytes × Bytes
  | 0, prf, T, U => (prf, T, U)
  | cnt+1, prf, T, U =>
    let prf := resetH prf
    let prf := writeH prf U
    let U := U.take 0
    let (prf, U) := sumG hsum prf U
    let T := xorInto T U
    pbkdfInnerG hsum cnt prf T U

/-- the outer loop of `pbkdf`, `cnt` iterations starting with block number `block`
    (`for block := 1; block <= numBlocks; block++`):
    ```
    prf.Reset(); prf.Write(salt); buf[..] = block (big endian); prf.Write(buf[:4])
    dk = prf.Sum(dk)
    T := dk[len(dk)-hashLen:]
    copy(U, T)
    … inner loop …
    ```
    `T` aliases the tail of `dk`, so the inner loop's xor lands in `dk`. -/
def pbkdfBlocksG (hsum : SumImpl) (salt : Bytes) (iter hashLen : Nat) :
    Nat → Nat → HState → Bytes → Bytes → HState × Bytes × Bytes
  | 0, _, prf, dk, U => (prf, dk, U)
  | cnt+1, block, prf, dk, U =>
    let prf := resetH prf
    let prf := writeH prf salt
    let prf := writeH prf (blockCounter block)
    let (prf, dk) := sumG hsum prf dk
    let T := dk.drop (dk.length - hashLen)
    let U := goCopy U T
    let (prf, T, U) := pbkdfInnerG hsum (iter - 1) prf T U
    let dk := dk.take (dk.length - hashLen) ++ T
    pbkdfBlocksG hsum salt iter hashLen cnt (block + 1) prf dk U

/-- `func pbkdf(password, salt []byte, iter, keyLen int, h func() hash.Hash) []byte` with `h = sm3.New`
    and `iter, keyLen ≥ 0` (a negative `keyLen` makes the final `dk[:keyLen]` panic; a negative `iter`
    behaves like 0):
    ```
    prf := hmac.New(h, password); hashLen := prf.Size()
    numBlocks := (keyLen + hashLen - 1) / hashLen
    dk := make([]byte, 0, numBlocks*hashLen); U := make([]byte, hashLen)
    for block := 1; block <= numBlocks; block++ { … }
    return dk[:keyLen]
    ``` -/
def pbkdfG (hsum : SumImpl) (password salt : Bytes) (iter keyLen : Nat) : Bytes :=
  let prf := newG hsum password
  let hashLen := size prf
  let numBlocks := (keyLen + hashLen - 1) / hashLen
  let dk : Bytes := []
  let U : Bytes := List.replicate hashLen 0
  let (_, dk, _) := pbkdfBlocksG hsum salt iter hashLen numBlocks 1 prf dk U
  dk.take keyLen

def pbkdf : Bytes → Bytes → Nat → Nat → Bytes := pbkdfG sum

-- gmtls/prf.go ---------------------------------------------------------------------------------

/-- the `for j < len(result)` loop of `pHash`; `res` is the part `result[:j]` filled so far
    (`j = res.length`), `n = len(result)`:
    ```
    h.Reset(); h.Write(a); h.Write(seed); b := h.Sum(nil)
    todo := len(b); if j+todo > len(result) { todo = len(result) - j }
    copy(result[j:j+todo], b); j += todo
    h.Reset(); h.Write(a); a = h.Sum(nil)
    ```
    The Go loop terminates because `len(b) = 32 > 0`; the model runs on fuel (`n` suffices: every
    iteration fills at least one byte, `Props.C04HMAC.pHash_eq` shows nothing is cut off). -/
def pHashLoopG (hsum : SumImpl) (n : Nat) (seed : Bytes) : Nat → HState → Bytes → Bytes → Bytes
  | 0, _, _, res => res
  | fuel+1, h, a, res =>
    if res.length < n then
      let j := res.length
      let h := resetH h
      let h := writeH h a
      let h := writeH h seed
      let (h, b) := sumG hsum h []
      let todo := if j + b.length > n then n - j else b.length
      let res := res ++ b.take todo
      let h := resetH h
      let h := writeH h a
      let (h, a) := sumG hsum h []
      pHashLoopG hsum n seed fuel h a res
    else res

/-- `func pHash(result, secret, seed []byte, hash func() hash.Hash)` with `hash = sm3.New`,
    `n = len(result)`; the value is the content of `result` afterwards:
    `h := hmac.New(hash, secret); h.Write(seed); a := h.Sum(nil); j := 0; for j < len(result) {…}` -/
def pHashG (hsum : SumImpl) (n : Nat) (secret seed : Bytes) : Bytes :=
  let h := newG hsum secret
  let h := writeH h seed
  let (h, a) := sumG hsum h []
  pHashLoopG hsum n seed n h a []

def pHash : Nat → Bytes → Bytes → Bytes := pHashG sum

/-- `prfAndHashForGM() = prf12(sm3.New)`:
    `labelAndSeed := make(…); copy(labelAndSeed, label); copy(labelAndSeed[len(label):], seed);
     pHash(result, secret, labelAndSeed, hashFunc)` -/
def prfGMG (hsum : SumImpl) (n : Nat) (secret label seed : Bytes) : Bytes :=
  pHashG hsum n secret (label ++ seed)

def prfGM : Nat → Bytes → Bytes → Bytes → Bytes := prfGMG sum

-- gmtls/cipher_suites.go tls10MAC over macSM3 ---------------------------------------------------

/-- `macSM3(version, key) = tls10MAC{hmac.New(sm3.New, key)}` -/
def macNewG (hsum : SumImpl) (key : Bytes) : HState := newG hsum key

/-- `func (s tls10MAC) MAC(digestBuf, seq, header, data, extra []byte) []byte`:
    ```
    s.h.Reset(); s.h.Write(seq); s.h.Write(header); s.h.Write(data)
    res := s.h.Sum(digestBuf[:0])
    if extra != nil { s.h.Write(extra) }
    return res
    ```
    `extra = none` is Go's nil slice. -/
def macG (hsum : SumImpl) (h : HState) (seq header data : Bytes) (extra : Option Bytes) : HState × Bytes :=
  let h := resetH h
  let h := writeH h seq
  let h := writeH h header
  let h := writeH h data
  let (h, res) := sumG hsum h []
  let h := match extra with
    | some e => writeH h e
    | none => h
  (h, res)

/-- one MAC call's arguments -/
structure MacCall where
  seq : Bytes
  header : Bytes
  data : Bytes
  extra : Option Bytes

/-- successive `MAC` calls on one object (one `halfConn` direction) -/
def macRunG (hsum : SumImpl) : HState → List MacCall → List Bytes
  | _, [] => []
  | h, c :: cs => let r := macG hsum h c.seq c.header c.data c.extra; r.2 :: macRunG hsum r.1 cs

def macNew (key : Bytes) : HState := macNewG sum key
def mac : HState → Bytes → Bytes → Bytes → Option Bytes → HState × Bytes := macG sum
def macRun : HState → List MacCall → List Bytes := macRunG sum

end Model.HMAC
