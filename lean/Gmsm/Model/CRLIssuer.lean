/-
Model of the issuer NAME that `x509.CreateRevocationList` and `(*Certificate).CreateCRL` (x509/x509.go) put into a
revocation list, as repaired: both take it from `subjectBytes(issuer)` - the RawSubject of the issuing certificate
when it is non-empty (every parsed certificate), the marshalled `Subject.ToRDNSequence()` otherwise - exactly as
`CreateCertificate` does for the issuer field of a certificate.  Before the repair both used
`issuer.Subject.ToRDNSequence()` (`crlIssuerOld`), which for a PARSED certificate only sees the fixed fields of
`pkix.Name` (parsing fills `Names`, never `ExtraNames`).

Names are RDN sequences with explicit order and grouping: the abstract syntax of the DER bytes (DER is injective on
them), so "RawSubject = the encoding of r" is modelled as `rawSubject = some r`.  Core Lean only.
-/
namespace Gmsm.Model.CRLIssuer

abbrev OID := List Nat

/-- An attribute value: the ASN.1 string type (`0` = a Go `string`, which the marshaller writes as PrintableString
or UTF8String; otherwise the universal tag of the string type found in the bytes, e.g. 22 = IA5String) and the
characters.  Only string-typed values are modelled. -/
structure Val where
  tag : Nat
  str : String
deriving DecidableEq, Repr

abbrev ATV := OID × Val
abbrev RDN := List ATV
abbrev RDNSeq := List RDN

/-- `pkix.Name` (Go standard library, crypto/x509/pkix). -/
structure Name where
  country : List String := []
  organization : List String := []
  organizationalUnit : List String := []
  locality : List String := []
  province : List String := []
  streetAddress : List String := []
  postalCode : List String := []
  serialNumber : String := ""
  commonName : String := ""
  names : List ATV := []
  extraNames : List ATV := []
deriving DecidableEq, Repr

def oidCountry : OID := [2, 5, 4, 6]
def oidOrganization : OID := [2, 5, 4, 10]
def oidOrganizationalUnit : OID := [2, 5, 4, 11]
def oidCommonName : OID := [2, 5, 4, 3]
def oidSerialNumber : OID := [2, 5, 4, 5]
def oidLocality : OID := [2, 5, 4, 7]
def oidProvince : OID := [2, 5, 4, 8]
def oidStreetAddress : OID := [2, 5, 4, 9]
def oidPostalCode : OID := [2, 5, 4, 17]

/-- the attribute types that have a field of their own in `pkix.Name` -/
def fixedOIDs : List OID :=
  [oidCountry, oidProvince, oidLocality, oidStreetAddress, oidPostalCode, oidOrganization, oidOrganizationalUnit,
   oidCommonName, oidSerialNumber]

/-- one attribute of `FillFromRDNSequence`: always appended to `Names`; the fixed fields by the last arc of 2.5.4.x
(CommonName / SerialNumber: the last one wins; the list fields collect every value). -/
def fillATV (n : Name) (a : ATV) : Name :=
  let n := { n with names := n.names ++ [a] }
  match a.1 with
  | [2, 5, 4, 3] => { n with commonName := a.2.str }
  | [2, 5, 4, 5] => { n with serialNumber := a.2.str }
  | [2, 5, 4, 6] => { n with country := n.country ++ [a.2.str] }
  | [2, 5, 4, 7] => { n with locality := n.locality ++ [a.2.str] }
  | [2, 5, 4, 8] => { n with province := n.province ++ [a.2.str] }
  | [2, 5, 4, 9] => { n with streetAddress := n.streetAddress ++ [a.2.str] }
  | [2, 5, 4, 10] => { n with organization := n.organization ++ [a.2.str] }
  | [2, 5, 4, 11] => { n with organizationalUnit := n.organizationalUnit ++ [a.2.str] }
  | [2, 5, 4, 17] => { n with postalCode := n.postalCode ++ [a.2.str] }
  | _ => n

def fillRDN (n : Name) (rdn : RDN) : Name := rdn.foldl fillATV n

/-- `Name.FillFromRDNSequence` on an empty Name: what parsing a certificate keeps of its subject
(multi-valued RDNs are flattened, `ExtraNames` stays empty). -/
def fill (r : RDNSeq) : Name := r.foldl fillRDN {}

def oidIn (oid : OID) (xs : List ATV) : Bool := xs.any (fun a => a.1 == oid)

/-- `Name.appendRDNs`: one RDN holding all values of a field, unless the field is empty or ExtraNames overrides it -/
def appendRDNs (n : Name) (acc : RDNSeq) (values : List String) (oid : OID) : RDNSeq :=
  if values.isEmpty || oidIn oid n.extraNames then acc
  else acc ++ [values.map (fun v => (oid, (⟨0, v⟩ : Val)))]

/-- `Name.ToRDNSequence`: the fixed fields in the fixed order Country, Province, Locality, StreetAddress,
PostalCode, Organization, OrganizationalUnit, CommonName, SerialNumber, then every ExtraNames entry as an RDN of
its own.  `Names` is ignored. -/
def toRDNSequence (n : Name) : RDNSeq :=
  let r := appendRDNs n [] n.country oidCountry
  let r := appendRDNs n r n.province oidProvince
  let r := appendRDNs n r n.locality oidLocality
  let r := appendRDNs n r n.streetAddress oidStreetAddress
  let r := appendRDNs n r n.postalCode oidPostalCode
  let r := appendRDNs n r n.organization oidOrganization
  let r := appendRDNs n r n.organizationalUnit oidOrganizationalUnit
  let r := if n.commonName ≠ "" then appendRDNs n r [n.commonName] oidCommonName else r
  let r := if n.serialNumber ≠ "" then appendRDNs n r [n.serialNumber] oidSerialNumber else r
  r ++ n.extraNames.map (fun a => [a])

/-- The two fields of `x509.Certificate` that decide a name it issues under.  `rawSubject = none`: RawSubject is
empty (a template built by the caller); `some r`: RawSubject holds the DER encoding of `r` (`some []` is the
two-byte empty SEQUENCE of a parsed certificate without subject, which is NOT an empty RawSubject). -/
structure Cert where
  rawSubject : Option RDNSeq
  subject : Name
deriving DecidableEq, Repr

/-- `ParseCertificate` as far as the subject goes: RawSubject are the bytes, Subject is filled from them. -/
def parseCert (r : RDNSeq) : Cert := ⟨some r, fill r⟩

/-- an issuer object built by the caller: Subject set, no RawSubject -/
def template (n : Name) : Cert := ⟨none, n⟩

/-- `subjectBytes` (x509/x509.go), as the name it encodes: RawSubject when non-empty, else the marshalled
`Subject.ToRDNSequence()`. -/
def subjectSeq (c : Cert) : RDNSeq :=
  match c.rawSubject with
  | some r => r
  | none => toRDNSequence c.subject

/-- issuer name of a certificate created with parent `c` (`CreateCertificate`: `subjectBytes(parent)`) -/
def certIssuer (c : Cert) : RDNSeq := subjectSeq c

/-- issuer name of a revocation list created by `CreateRevocationList(…, issuer = c, …)` and by `c.CreateCRL(…)`,
as repaired: `subjectBytes(c)` copied as raw bytes into the TBSCertList. -/
def crlIssuer (c : Cert) : RDNSeq := subjectSeq c

/-- the rule before the repair: `c.Subject.ToRDNSequence()`, whatever RawSubject holds -/
def crlIssuerOld (c : Cert) : RDNSeq := toRDNSequence c.subject

end Gmsm.Model.CRLIssuer
