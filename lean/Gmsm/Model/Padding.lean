/-
Model of sm4/padding (streaming PKCS#7): `PKCS7PaddingReader.Read` over an arbitrary source
behaviour, `PKCS7PaddingWriter.Write/Final`, and the `P7BlockEnc/P7BlockDecrypt` loops.
Core Lean only; executable.  This models the repaired code (see KNOWN_FINDINGS.txt); `ReaderOld`
keeps the pinned commit's decision "a short read means end of file" for the negative witness;
`Writer.finalOld` keeps the `Final()` without the byte counter (sliding window only) for the witness
`Props.C19.old_writer_accepts_misaligned`.
-/
import Gmsm.Util.Bytes
namespace Model.Padding
open Gmsm

/-- the abstract behaviour the property names: data followed by one PKCS#7 pad -/
def padStream (bs : Nat) (data : Bytes) : Bytes :=
  data ++ List.replicate (bs - data.length % bs) (BitVec.ofNat 8 (bs - data.length % bs))

-- the source -------------------------------------------------------------------------------------

/-- An `io.Reader` over `data` whose successive `Read` calls follow `script`: entry `(k, e)` means
    "return at most `k` bytes (0 = a zero-byte read with nil error); if this read hands out the last
    byte and `e` is set, return `io.EOF` together with the data".  A read when nothing is left
    returns `(0, io.EOF)`.  When the script is exhausted the source returns as much as is asked. -/
structure Src where
  data : Bytes
  script : List (Nat × Bool)

/-- the reader's inner loop `for n < len(buf) && !p.eof { m, err = fIn.Read(buf[n:]) … }`:
    returns the bytes obtained, the source afterwards, and whether `io.EOF` was seen. -/
def fill : List (Nat × Bool) → Bytes → Nat → Bytes × Src × Bool
  | [], data, need =>
      -- default behaviour: full reads, EOF on the read after the last byte
      if data.length < need then (data, ⟨[], []⟩, true) else (data.take need, ⟨data.drop need, []⟩, false)
  | (k, e) :: rest, data, need =>
      if need = 0 then ([], ⟨data, (k, e) :: rest⟩, false)
      else if data.length = 0 then ([], ⟨[], rest⟩, true)
      else
        let m := min k (min need data.length)
        if m = data.length ∧ e then (data.take m, ⟨[], rest⟩, true)
        else
          let (bs, src', eof) := fill rest (data.drop m) (need - m)
          (data.take m ++ bs, src', eof)

-- the padding reader ------------------------------------------------------------------------------

structure Reader where
  src : Src
  blockSize : Nat
  readed : Nat
  eof : Bool
  eop : Bool
  pad : Option Bytes      -- what is left of the padding reader, once created

inductive Err | none | eof
deriving DecidableEq, Repr

def newReader (src : Src) (bs : Nat) : Reader := ⟨src, bs, 0, false, false, none⟩

/-- `Read(buf)` with `len(buf) = L` -/
def Reader.read (r : Reader) (L : Nat) : Reader × Bytes × Err :=
  if r.eof ∧ r.eop then (r, [], .eof)
  else
    let (b1, r1) :=
      if r.eof then (([] : Bytes), r)
      else
        let (b, src', eof) := fill r.src.script r.src.data L
        (b, { r with src := src', readed := r.readed + b.length, eof := eof })
    if ¬ r1.eof then (r1, b1, .none)
    else
      -- newPadding (only the first time)
      let pad := r1.pad.getD (List.replicate (r1.blockSize - r1.readed % r1.blockSize)
                                (BitVec.ofNat 8 (r1.blockSize - r1.readed % r1.blockSize)))
      -- bytes.Reader.Read(buf[off:])
      let room := L - b1.length
      if pad.isEmpty then ({ r1 with pad := some pad, eop := true }, b1, .eof)
      else
        let m := min room pad.length
        ({ r1 with pad := some (pad.drop m) }, b1 ++ pad.take m, .none)

/-- call `Read` with the given buffer sizes; collect the bytes and whether EOF was returned -/
def readAll : Reader → List Nat → Bytes × Bool
  | _, [] => ([], false)
  | r, L :: Ls =>
    let (r', b, e) := r.read L
    if e = .eof then (b, true)
    else let (bs, done) := readAll r' Ls; (b ++ bs, done)

-- the un-padding writer -----------------------------------------------------------------------------

structure Writer where
  cache : Bytes
  blockSize : Nat
  out : Bytes      -- everything forwarded to the underlying writer so far
  written : Nat    -- `written`: the number of bytes accepted by `Write` so far (repair of C19 `padwriter`)

def newWriter (bs : Nat) : Writer := ⟨[], bs, [], 0⟩

/-- `Write(buff)`: count the bytes, keep one block, forward the rest (in pieces of at most 1 KiB: same bytes) -/
def Writer.write (w : Writer) (buff : Bytes) : Writer :=
  let c := w.cache ++ buff
  let n := w.written + buff.length
  if c.length > w.blockSize then
    { w with cache := c.drop (c.length - w.blockSize), out := w.out ++ c.take (c.length - w.blockSize), written := n }
  else { w with cache := c, written := n }

/-- `Final()`: `none` = error.  The cache is only a sliding window over the last `blockSize` bytes, so the
    block alignment of the whole stream is decided by the byte counter: a stream whose length is not a
    multiple of the block size ends in a partial block, which is never a valid pad. -/
def Writer.final (w : Writer) : Option Bytes :=
  let b := w.cache
  if b.length ≠ w.blockSize then none
  else if b.length = 0 then some w.out
  else if w.written % w.blockSize ≠ 0 then none
  else
    let k := (b.getLastD 0).toNat
    if k > w.blockSize ∨ k = 0 then none
    else if (b.drop (b.length - k)).all (fun c => c.toNat == k) then some (w.out ++ b.take (b.length - k))
    else none

def writeAll (bs : Nat) (ws : List Bytes) : Option Bytes := (ws.foldl Writer.write (newWriter bs)).final

/-- `Final()` of the code as found (before the repair): no byte counter, only the sliding window is looked at
    (negative witness only) -/
def Writer.finalOld (w : Writer) : Option Bytes :=
  let b := w.cache
  if b.length ≠ w.blockSize then none
  else if b.length = 0 then some w.out
  else
    let k := (b.getLastD 0).toNat
    if k > w.blockSize ∨ k = 0 then none
    else if (b.drop (b.length - k)).all (fun c => c.toNat == k) then some (w.out ++ b.take (b.length - k))
    else none

def writeAllOld (bs : Nat) (ws : List Bytes) : Option Bytes := (ws.foldl Writer.write (newWriter bs)).finalOld

-- the pinned commit's reader (negative witness only) ---------------------------------------------

/-- one `Read` of the old reader on a source without EOF-with-data: a read shorter than the buffer
    switched to padding although the file had not ended -/
def oldReadShort (bs readed got L : Nat) : Bytes :=
  if got = L then [] else List.replicate (min (L - got) (bs - (readed + got) % bs)) (BitVec.ofNat 8 (bs - (readed + got) % bs))

end Model.Padding
