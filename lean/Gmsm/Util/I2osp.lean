/-
Fixed-length big-endian encoding defined by recursion (convenient for proofs), with injectivity.
-/
import Gmsm.Util.Bytes
namespace Gmsm

/-- `k`-byte big-endian encoding of `n mod 256^k` -/
def i2ospR : Nat → Nat → Bytes
  | 0, _ => []
  | k+1, n => i2ospR k (n / 256) ++ [BitVec.ofNat 8 n]

theorem i2ospR_length (k n : Nat) : (i2ospR k n).length = k := by
  induction k generalizing n with
  | zero => rfl
  | succ k ih => simp [i2ospR, ih]

/-- distinct numbers below 256^k have distinct encodings -/
theorem i2ospR_inj (k a b : Nat) (ha : a < 256 ^ k) (hb : b < 256 ^ k) (h : i2ospR k a = i2ospR k b) : a = b := by
  induction k generalizing a b with
  | zero => simp at ha hb; omega
  | succ k ih =>
    simp only [i2ospR] at h
    have hl : (i2ospR k (a / 256)).length = (i2ospR k (b / 256)).length := by simp [i2ospR_length]
    have := List.append_inj h hl
    have h1 := ih (a / 256) (b / 256) (by rw [Nat.pow_succ] at ha; omega) (by rw [Nat.pow_succ] at hb; omega) this.1
    have h2 : (BitVec.ofNat 8 a) = (BitVec.ofNat 8 b) := by simpa using this.2
    have h3 := congrArg BitVec.toNat h2
    simp only [BitVec.toNat_ofNat] at h3
    omega

end Gmsm
