/-
Byte-string utilities shared by specs, models and the driver (core Lean only).
Bytes are `BitVec 8`, 32-bit words `BitVec 32`; byte strings are `List Byte`.
-/
namespace Gmsm

abbrev Byte := BitVec 8
abbrev W32 := BitVec 32
abbrev W64 := BitVec 64
abbrev Bytes := List Byte

/-- big-endian 32-bit word from four bytes -/
def be32 (a b c d : Byte) : W32 := a ++ b ++ c ++ d

/-- the four big-endian bytes of a word -/
def w32bytes (w : W32) : Bytes :=
  [w.extractLsb' 24 8, w.extractLsb' 16 8, w.extractLsb' 8 8, w.extractLsb' 0 8]

def w64bytes (w : W64) : Bytes :=
  [w.extractLsb' 56 8, w.extractLsb' 48 8, w.extractLsb' 40 8, w.extractLsb' 32 8,
   w.extractLsb' 24 8, w.extractLsb' 16 8, w.extractLsb' 8 8, w.extractLsb' 0 8]

/-- Go's `x << k | x >> (32-k)` with shift counts ≥ 32 yielding 0 (Go semantics). -/
def goShl32 (x : W32) (k : Nat) : W32 := if k < 32 then x <<< k else 0
def goShr32 (x : W32) (k : Nat) : W32 := if k < 32 then x >>> k else 0

def xorBytes : Bytes → Bytes → Bytes
  | a :: as, b :: bs => (a ^^^ b) :: xorBytes as bs
  | _, _ => []

/-- OS2IP: big-endian bytes to natural number -/
def os2ip (bs : Bytes) : Nat := bs.foldl (fun acc b => acc * 256 + b.toNat) 0

/-- I2OSP with fixed length (truncating high bytes like a fixed-width store) -/
def i2osp (len : Nat) (n : Nat) : Bytes :=
  (List.range len).map (fun i => BitVec.ofNat 8 (n / 256 ^ (len - 1 - i)))

/-- minimal big-endian encoding (Go's big.Int.Bytes: empty for 0) -/
def natBytesAux : Nat → Nat → Bytes → Bytes
  | 0, _, acc => acc
  | fuel+1, n, acc => if n = 0 then acc else natBytesAux fuel (n / 256) (BitVec.ofNat 8 n :: acc)
def natBytes (n : Nat) : Bytes := natBytesAux (n+1) n []

theorem and_ff_lt (i : W32) : (i &&& 0xff).toNat < 256 := by
  have h : (i &&& (0xff : W32)).toNat = i.toNat &&& 255 := by simp [BitVec.toNat_and]
  rw [h]; exact Nat.lt_succ_of_le Nat.and_le_right

-- hex ------------------------------------------------------------------------------------

def hexDigit (n : Nat) : Char :=
  if n < 10 then Char.ofNat (48 + n) else Char.ofNat (87 + n)

def toHex (bs : Bytes) : String :=
  String.ofList (bs.flatMap (fun b => [hexDigit (b.toNat / 16), hexDigit (b.toNat % 16)]))

def hexVal (c : Char) : Option Nat :=
  if '0' ≤ c ∧ c ≤ '9' then some (c.toNat - 48)
  else if 'a' ≤ c ∧ c ≤ 'f' then some (c.toNat - 87)
  else if 'A' ≤ c ∧ c ≤ 'F' then some (c.toNat - 55)
  else none

def ofHexAux : List Char → Bytes → Option Bytes
  | [], acc => some acc.reverse
  | [_], _ => none
  | a :: b :: rest, acc =>
    match hexVal a, hexVal b with
    | some x, some y => ofHexAux rest (BitVec.ofNat 8 (x * 16 + y) :: acc)
    | _, _ => none

/-- parse hex; "-" or "" denote the empty string -/
def ofHex (s : String) : Option Bytes :=
  if s = "-" then some [] else ofHexAux s.toList []

/-- hex for driver output: the empty string is printed as `-` -/
def hx (bs : Bytes) : String := if bs.isEmpty then "-" else toHex bs

def w32hex (w : W32) : String := toHex (w32bytes w)

end Gmsm
