import json,sys
pid=sys.argv[1]
extra=sys.argv[2] if len(sys.argv)>2 else ""
for l in open('/verif/properties.jsonl'):
    p=json.loads(l)
    if p['id']==pid: break
txt=f"""You are helping test a verification effort by seeding a realistic bug. Work ONLY inside the scratch git worktree /tmp/wt8/{pid} (a checkout of the Go library github.com/tjfoc/gmsm: SM2/SM3/SM4, x509, pkcs12 and a GM/T 0024 TLS stack). Do not touch /repo or /verif, and do not read anything under /verif.

Environment: no network. In every shell call first run: export GOFLAGS=-mod=mod GOPROXY=off GOSUMDB=off GOTOOLCHAIN=local . The existing test suite is run with: cd /tmp/wt8/{pid} && go test -vet=off -count=1 ./...   (it takes well under a minute; a file pkcs12/test.p12 may be created by the tests, ignore it).

Here is a semantic property the library is supposed to satisfy:

  id: {p['id']}
  title: {p['title']}
  statement: {p['statement']}
  quantified over: {p['quantifier']['text']}
  relevant files: {', '.join(p['anchors']['files'])}

{extra}
Task: produce TWO different, independent source changes to the library (each a separate small patch against the pristine worktree) such that each one
  (a) BREAKS the property above (some input/history/configuration in the quantified space now violates the statement),
  (b) still compiles and still passes the complete existing test suite (run it and confirm), and
  (c) is realistic — the kind of slip a maintainer could make in a refactor or "optimisation" — and needs something SPECIFIC to manifest: an unusual input, a particular length/boundary, a multi-step sequence of operations, a particular interleaving, or two cooperating sites that each look fine alone. NOT something ordinary use would expose at once (e.g. do not simply break every encryption).
The two changes should exercise different mechanisms/areas of the property.

For each change i in {{1,2}} write into /tmp/seeded8/{pid}/m{{i}}/ :
  - patch.diff : `git diff` of the change against the pristine worktree (apply-able with `git apply`),
  - a demonstration: a Go test file (e.g. demo_test.go, say in which package directory it must be placed) or a small program that FAILS with the change applied and PASSES on the pristine tree; say exactly how to run it,
  - meta.json : {{"property": "{pid}", "summary": "...", "needs_to_manifest": "...", "files_changed": [...], "demo": {{"place_at": "...", "run": "..."}}, "verified": "what you ran and saw"}}.
Verify both directions yourself (demo passes on pristine tree, fails with patch; full suite passes with patch). After saving each patch, restore the worktree to pristine (git checkout -- . and remove added files) before starting the next one, and leave the worktree pristine at the end. Keep your final answer short: the two summaries and confirmation of what you verified."""
print(txt)
